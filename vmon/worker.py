"""Worker subprocess: runs the cases i = w, w+jobs, ... of one check and writes
one JSON result file. A case spec depends only on (VERIF_SEED, i)."""
import hashlib
import json
import os
import random
import signal
import sys
import time
import traceback
import warnings

warnings.simplefilter('ignore')


class CaseTimeout(BaseException):
    pass


def _alarm(signum, frame):
    raise CaseTimeout(''.join(traceback.format_stack(frame)[-6:]))


def case_rng(seed, i, cid):
    h = hashlib.sha256(('%s/%d/%d' % (cid, seed, i)).encode()).digest()
    return random.Random(int.from_bytes(h[:8], 'big'))


def sig_of(obj):
    return hashlib.sha1(json.dumps(obj, sort_keys=True, default=str).encode()).hexdigest()[:16]


def run_case(mod, spec, limit):
    """Run one case under a wall-clock watchdog. Returns the check's result
    dictionary, or {'timeout': ...} / {'error': ...} (both inconclusive)."""
    old = signal.signal(signal.SIGALRM, _alarm)
    signal.setitimer(signal.ITIMER_REAL, limit)
    try:
        res = mod.run(spec)
    except CaseTimeout as e:
        res = {'timeout': 'case exceeded %ss wall clock at: %s' % (limit, str(e)[-800:])}
    except Exception:  # harness bug, never a verdict
        res = {'error': traceback.format_exc()[-1500:]}
    finally:
        signal.setitimer(signal.ITIMER_REAL, 0)
        signal.signal(signal.SIGALRM, old)
    return res


def main():
    cid, tier, seed, w, jobs, n, deadline, out = sys.argv[1:9]
    seed, w, jobs, n, deadline = int(seed), int(w), int(jobs), int(n), float(deadline)
    import importlib
    mod = importlib.import_module('vmon.checks.%s' % cid.lower())
    from vmon import cov
    if hasattr(mod, 'setup'):
        mod.setup()
    tracker = cov.start(getattr(mod, 'ANCHORS', []))
    t0 = time.time()
    agg = {'evaluations': 0, 'nontrivial_sigs': [], 'stats': {}, 'oracle_evals': {},
           'violations': [], 'samples': [], 'timeouts': [], 'errors': [], 'classes': {},
           'stopped_early': False}
    nt = set()
    limit = getattr(mod, 'CASE_LIMIT_S', 120)
    # witnesses of listed known findings neither stop the worker early nor crowd out other violations
    from vmon.run import read_known
    known = {slug for (c, slug) in read_known() if c == cid}
    agg['known_counts'] = {}
    unknown = 0
    for i in range(w, n, jobs):
        if time.time() - t0 > deadline or unknown >= 40:
            agg['stopped_early'] = True
            break
        rng = case_rng(seed, i, cid)
        spec = mod.gen(rng, tier, i)
        if spec is None:
            continue
        res = run_case(mod, spec, limit)
        agg['evaluations'] += 1
        if 'timeout' in res:
            agg['timeouts'].append({'spec': spec, 'where': res['timeout']})
            continue
        if 'error' in res:
            agg['errors'].append({'spec': spec, 'trace': res['error']})
            continue
        for k, v in res.get('stats', {}).items():
            agg['stats'][k] = agg['stats'].get(k, 0) + v
        for k, v in res.get('evals', {}).items():
            agg['oracle_evals'][k] = agg['oracle_evals'].get(k, 0) + v
        for k in res.get('classes', []):
            agg['classes'][k] = agg['classes'].get(k, 0) + 1
        if res.get('nontrivial'):
            nt.add(sig_of(spec))
        for v in res.get('viol', []):
            slug = v.get('mechanism')
            if slug in known:
                agg['known_counts'][slug] = agg['known_counts'].get(slug, 0) + 1
                if agg['known_counts'][slug] > 3:
                    continue
            else:
                unknown += 1
                if unknown > 200:
                    continue
            v = dict(v)
            v['spec'] = spec
            agg['violations'].append(v)
        if len(agg['samples']) < 2 and res.get('nontrivial') and not res.get('viol'):
            agg['samples'].append({'case': spec, 'observed': res.get('summary')})
    agg['nontrivial_sigs'] = sorted(nt)
    agg['coverage'] = cov.stop(tracker)
    tmp = out + '.tmp'
    with open(tmp, 'w') as f:
        json.dump(agg, f, default=str)
    os.replace(tmp, out)
    sys.stdout.flush()
    os._exit(0)


if __name__ == '__main__':
    main()
