"""R2: independent ports x topology resolver, and the generator of hierarchies,
ports schemas and well-formed topologies shared by C06 / C07 / C15.

The resolver is written from the documentation of topologies (tuples, '..',
'_path' dictionaries, remaps, glob ports, output ports), not from the code of
Store.schema_topology / inverse_topology."""
from vmon.util import norm_path, rel_path, nest, flat

SCHEMA_KEYS = {'_default', '_updater', '_value', '_properties', '_emit', '_serializer', '_divider', '_units'}


def is_leaf_schema(s):
    return isinstance(s, dict) and bool(set(s) & (SCHEMA_KEYS - {'_divider'}))


def children(tree, path):
    node = tree
    for k in path:
        if not isinstance(node, dict) or k not in node:
            return []
        node = node[k]
    return list(node.keys()) if isinstance(node, dict) else []


def resolve(schema, topo, base, tree, view=(), writes=False):
    """{view path -> absolute node path} for every declared variable.
    ``writes``: include output-only ports (they can be written, not read)."""
    out = {}
    if schema == '**' or is_leaf_schema(schema):
        out[view] = norm_path(base)
        return out
    if schema.get('_output') and not writes:
        return out
    for k, sub in schema.items():
        if k in ('_divider', '_output'):
            continue
        t = topo.get(k) if isinstance(topo, dict) else None
        if k == '*':
            if isinstance(t, dict):
                t = dict(t)
                b = norm_path(base + tuple(t.pop('_path', ())))
                for c in children(tree, b):
                    out.update(resolve(sub, t, b + (c,), tree, view + (c,), writes))
            else:
                b = norm_path(base + tuple(t or ()))
                for c in children(tree, b):
                    out.update(resolve(sub, {}, b + (c,), tree, view + (c,), writes))
        elif isinstance(t, dict):
            t = dict(t)
            b = norm_path(base + tuple(t.pop('_path', ())))
            out.update(resolve(sub, t, b, tree, view + (k,), writes))
        else:
            p = t if t is not None else (k,)
            out.update(resolve(sub, {}, norm_path(base + tuple(p)), tree, view + (k,), writes))
    return out


def tup(x):
    """JSON topology (lists) -> topology with tuple paths."""
    if isinstance(x, dict):
        return {k: tup(v) for k, v in x.items()}
    if isinstance(x, list):
        return tuple(x)
    return x


def gen_case(r, maxports=4, globs=True, allow_collisions=True):
    """Hierarchy of branches with distinctly-valued leaves, one process at depth 0-2 wired to it.
    Returns a JSON-able dict: schema, topology (lists), ppath, leaves [[path, value]], kinds."""
    branches = [()]
    for _ in range(r.randint(2, 6)):
        b = r.choice(branches)
        if len(b) < 3:
            branches.append(b + ('b%d' % len(branches),))
    branches = branches[1:] or [('b1',)]
    # a branch may not also be a leaf parent conflict: leaves live only in branches
    leaves = {}
    val = [1]

    def fresh():
        v = val[0] * 1000
        val[0] += 1
        return v
    for b in branches:
        for j in range(r.randint(1, 3)):
            leaves[b + ('v%d' % j,)] = fresh()
    # leaves directly under the root (paths of length one)
    for j in range(r.choice([0, 0, 1, 2])):
        leaves[('t%d' % j,)] = fresh()
    ploc = r.choice([()] + branches)
    if len(ploc) > 2:
        ploc = ploc[:2]
    ppath = ploc + ('proc',)
    schema = {}
    topo = {}
    kinds = []
    used_nodes = set()
    owned = set()          # leaves another process (the owner) has to declare
    members = []           # processes / steps living inside glob children
    leaf_nodes = list(leaves)

    def pick_leaf():
        cand = leaf_nodes if allow_collisions else [l for l in leaf_nodes if l not in used_nodes]
        if not cand:
            return None
        l = r.choice(cand)
        used_nodes.add(l)
        return l
    nports = r.randint(1, maxports)
    for pi in range(nports):
        kind = r.choice(['dict', 'dict', 'dictpath', 'leaf', 'full', 'glob', 'out', 'nested', 'globdict', 'starstar', 'deepsplit', 'unwired']
                        if globs else ['dict', 'dict', 'dictpath', 'leaf', 'full', 'out', 'nested', 'deepsplit', 'unwired'])
        port = 'P%d' % pi
        if kind == 'unwired':
            # a port the topology does not mention at all: wired to a store of its own name next to the process
            leaves[ploc + (port, 'w')] = fresh()
            schema[port] = {'w': {'_default': leaves[ploc + (port, 'w')]}}
            kinds.append(kind)
            continue
        B = r.choice(branches)
        bl = [l for l in leaf_nodes if l[:-1] == B]
        if not allow_collisions:
            bl = [l for l in bl if l not in used_nodes]
            if not bl and kind in ('dict', 'dictpath', 'out', 'nested', 'starstar', 'deepsplit'):
                kind = 'leaf'
        if kind == 'leaf':
            tgt = pick_leaf()
            if tgt is None:
                continue
            schema[port] = {'_default': leaves[tgt]}
            topo[port] = list(rel_path(ploc, tgt))
            if r.random() < 0.3:
                topo[port] = {'_path': topo[port]}      # the same wiring written as a dictionary with '_path' alone
        elif kind in ('dict', 'out'):
            vs = r.sample(bl, r.randint(1, len(bl)))
            used_nodes.update(vs)
            schema[port] = {l[-1]: {'_default': leaves[l]} for l in vs}
            if kind == 'out':
                schema[port]['_output'] = True
            else:
                x = r.random()
                if x < 0.15:
                    schema[port]['_divider'] = 'set'      # a branch-level divider declared in the port (not a variable)
                elif x < 0.3:
                    schema[port]['_output'] = False       # the flag is present but off: an ordinary readable port
            topo[port] = list(rel_path(ploc, B))
        elif kind == 'dictpath':
            vs = r.sample(bl, r.randint(1, len(bl)))
            used_nodes.update(vs)
            schema[port] = {l[-1]: {'_default': leaves[l]} for l in vs}
            t = {'_path': list(rel_path(ploc, B))}
            for k in range(r.randint(1, 2)):
                tgt = pick_leaf()
                if tgt is None:
                    break
                name = 'r%d' % k
                schema[port][name] = {'_default': leaves[tgt]}
                t[name] = list(rel_path(B, tgt))
            topo[port] = t
        elif kind == 'full':
            t = {}
            schema[port] = {}
            for k in range(r.randint(1, 3)):
                tgt = pick_leaf()
                if tgt is None:
                    break
                name = 'f%d' % k
                schema[port][name] = {'_default': leaves[tgt]}
                t[name] = list(rel_path(ploc, tgt))
            if not t:
                del schema[port]
                continue
            if r.random() < 0.3:
                # one more variable that the dictionary topology does not name: wired to a node of its own name
                leaves[ploc + ('u%d' % pi,)] = fresh()
                schema[port]['u%d' % pi] = {'_default': leaves[ploc + ('u%d' % pi,)]}
            topo[port] = t
        elif kind == 'nested':
            par = B[:-1]
            vs = r.sample(bl, r.randint(1, len(bl)))
            used_nodes.update(vs)
            schema[port] = {B[-1]: {l[-1]: {'_default': leaves[l]} for l in vs}}
            topo[port] = list(rel_path(ploc, par))
        elif kind == 'deepsplit':
            # a nested group with its own '_path' inside a port that has a '_path' too, one variable of the
            # group re-mapped out of it with '..'
            vs = r.sample(bl, r.randint(1, len(bl)))
            used_nodes.update(vs)
            other = pick_leaf()
            inner = {l[-1]: {'_default': leaves[l]} for l in vs}
            it = {'_path': [B[-1]]}
            for l in vs:
                it[l[-1]] = [l[-1]]
            if other is not None:
                inner['far'] = {'_default': leaves[other]}
                it['far'] = list(rel_path(B, other))
            schema[port] = {'m': inner}
            topo[port] = {'_path': list(rel_path(ploc, B[:-1])), 'm': it}
        elif kind == 'starstar':
            if ploc[:len(B)] == B:
                continue            # the subtree would contain the probe itself
            schema[port] = '**'
            topo[port] = list(rel_path(ploc, B))
            sub = [l for l in leaf_nodes if l[:len(B)] == B]
            used_nodes.update(sub)
            owned.update(sub)
        elif kind in ('glob', 'globdict'):
            G = ('g%d' % pi,)
            nchild = r.randint(0, 3)
            sub = r.choice(['leaf', 'dict']) if kind == 'glob' else 'dictmap'
            for c in range(nchild):
                if sub == 'leaf':
                    leaves[G + ('c%d' % c,)] = fresh()
                elif sub == 'dict':
                    for vn in ('x', 'y'):
                        leaves[G + ('c%d' % c, vn)] = fresh()
                else:
                    leaves[G + ('c%d' % c, 'bd', 'x')] = fresh()
                    leaves[G + ('c%d' % c, 'y')] = fresh()
                    if r.random() < 0.5:
                        # (otherwise the re-mapped node exists only through the glob's sub-schema and sub-topology)
                        owned.add(G + ('c%d' % c, 'bd', 'x'))
            if sub == 'leaf':
                schema[port] = {'*': {'_default': 7}}
                topo[port] = list(rel_path(ploc, G))
                if r.random() < 0.3:
                    topo[port] = {'_path': topo[port]}      # (a dictionary with '_path' alone, no entry for '*')
            elif sub == 'dict':
                schema[port] = {'*': {'x': {'_default': 7}, 'y': {'_default': 8}}}
                topo[port] = list(rel_path(ploc, G))
                if r.random() < 0.3:
                    topo[port] = {'_path': topo[port]}
                # some children exist because a process (or a step) of their own lives in them: it declares x
                # (wired to its own compartment); y comes only from the glob's sub-schema
                for c in range(nchild):
                    if r.random() < 0.5:
                        members.append({'path': list(G + ('c%d' % c, 'mem')), 'default': leaves[G + ('c%d' % c, 'x')],
                                        'step': r.random() < 0.4})
            else:
                # glob whose children are re-mapped by a dictionary sub-topology; the path to the glob
                # store is given at the port level, inside the '*' dictionary, or split over both
                schema[port] = {'*': {'x': {'_default': 7}, 'y': {'_default': 8}}}
                where = r.choice(['port', 'star', 'both'])
                full = list(rel_path(ploc, G))
                ymap = {} if r.random() < 0.3 else {'y': ['y']}     # (y may be left unnamed: wired to the child's y)
                if where == 'port' or (where == 'both' and len(full) < 2):
                    topo[port] = {'_path': full, '*': dict({'x': ['bd', 'x']}, **ymap)}
                elif where == 'star':
                    topo[port] = {'*': dict({'_path': full, 'x': ['bd', 'x']}, **ymap)}
                else:
                    topo[port] = {'_path': full[:-1], '*': dict({'_path': full[-1:], 'x': ['bd', 'x']}, **ymap)}
        kinds.append(kind)
    if not schema:
        tgt = leaf_nodes[0]
        schema['P0'] = {'_default': leaves[tgt]}
        topo['P0'] = list(rel_path(ploc, tgt))
        kinds.append('leaf')
    # an owner process at the root declares some more leaves (extra variables in the stores)
    for l in leaf_nodes:
        if r.random() < 0.3:
            owned.add(l)
    return {'schema': schema, 'topology': topo, 'ppath': list(ppath),
            'leaves': [[list(p), v] for p, v in leaves.items()], 'kinds': kinds,
            'owned': [list(p) for p in sorted(owned)], 'owner_first': r.random() < 0.5, 'members': members}


def owner_parts(case):
    """(schema, topology) of the owner process: one leaf port per owned leaf."""
    lv = leaves_of(case)
    schema = {}
    topology = {}
    for i, p in enumerate(case.get('owned', [])):
        schema['o%d' % i] = {'_default': lv[tuple(p)]}
        topology['o%d' % i] = tuple(p)
    return schema, topology


def member_parts(case):
    """[(path, schema, topology, is_step)] of the processes living inside glob children."""
    return [(tuple(m['path']), {'M': {'x': {'_default': m['default']}}}, {'M': ()}, bool(m['step']))
            for m in case.get('members', [])]


def leaves_of(case):
    return {tuple(p): v for p, v in case['leaves']}


def init_tree(case):
    return nest(leaves_of(case))
