"""Master process of a check: fans cases out to worker subprocesses, folds the
results, classifies violations against KNOWN_FINDINGS.txt, writes evidence and
replay files, prints the verdict.

Exit codes: 0 held / only known findings, 1 violation, 2 inconclusive.
"""
import argparse
import hashlib
import importlib
import json
import os
import subprocess
import sys
import time

HOME = os.environ.get('VERIF_HOME', os.path.dirname(os.path.dirname(os.path.abspath(__file__))))
REPO = os.environ.get('VERIF_REPO', '/repo')


def load_check(cid):
    return importlib.import_module('vmon.checks.%s' % cid.lower())


def read_known():
    """known: property=<id> mechanism=<slug> <text>  ->  {(id, slug): text}"""
    known = {}
    path = os.path.join(HOME, 'KNOWN_FINDINGS.txt')
    if not os.path.exists(path):
        return known
    for line in open(path):
        line = line.strip()
        if not line.startswith('known:'):
            continue
        parts = line[len('known:'):].split()
        kv = dict(p.split('=', 1) for p in parts[:2] if '=' in p)
        if 'property' in kv and 'mechanism' in kv:
            known[(kv['property'], kv['mechanism'])] = ' '.join(parts[2:])
    return known


def sig_of(obj):
    return hashlib.sha1(json.dumps(obj, sort_keys=True, default=str).encode()).hexdigest()[:16]


def main(argv=None):
    ap = argparse.ArgumentParser()
    ap.add_argument('check')
    ap.add_argument('--tier', default=os.environ.get('VERIF_TIER', 'quick'))
    ap.add_argument('--replay')
    ap.add_argument('--jobs', type=int, default=int(os.environ.get('VERIF_JOBS', '0')) or None)
    ap.add_argument('--n', type=int, help='override the number of cases')
    ap.add_argument('--no-evidence', action='store_true')
    ap.add_argument('--hist', action='store_true', help='print a histogram of violations (development aid)')
    args = ap.parse_args(argv)
    cid = args.check.upper()
    tier = args.tier if args.tier in ('quick', 'thorough') else 'quick'
    seed = int(os.environ.get('VERIF_SEED', '0') or 0)
    mod = load_check(cid)

    if args.replay:
        return replay(cid, mod, args.replay)

    t0 = time.time()
    plan = mod.PLAN[tier]
    n = args.n or plan['n']
    jobs = args.jobs or min(16, os.cpu_count() or 4, max(1, n // max(1, plan.get('min_chunk', 8))))
    jobs = max(1, min(jobs, plan.get('max_jobs', 16)))
    deadline = plan.get('deadline_s', 150 if tier == 'quick' else 1500)
    scratch = os.path.join(HOME, 'replays', cid, '.work-%d' % os.getpid())
    os.makedirs(scratch, exist_ok=True)
    procs = []
    for w in range(jobs):
        out = os.path.join(scratch, 'w%d.json' % w)
        cmd = [sys.executable, '-B', '-m', 'vmon.worker', cid, tier, str(seed),
               str(w), str(jobs), str(n), str(deadline), out]
        procs.append((w, out, subprocess.Popen(cmd, stdout=subprocess.DEVNULL,
                                               stderr=open(out + '.err', 'w'))))
    hard = deadline * 2 + 120
    results = []
    infra = []
    for w, out, p in procs:
        left = max(1.0, t0 + hard - time.time())
        try:
            p.wait(timeout=left)
        except subprocess.TimeoutExpired:
            p.kill()
            p.wait()
            infra.append('worker %d exceeded the wall-clock watchdog (%ds)' % (w, hard))
        if os.path.exists(out):
            try:
                results.append(json.load(open(out)))
                continue
            except Exception as e:  # noqa
                infra.append('worker %d wrote unreadable results: %r' % (w, e))
        else:
            err = ''
            try:
                err = open(out + '.err').read()[-1500:]
            except Exception:
                pass
            infra.append('worker %d died without results (rc=%s): %s' % (w, p.returncode, err))

    agg = fold(results)
    if args.hist:
        hist(agg)
    wall = time.time() - t0
    known = read_known()
    verdict, lines = judge(cid, mod, agg, infra, known, plan)
    if not args.no_evidence:
        write_evidence(cid, mod, tier, seed, agg, wall, verdict, plan)
    for f in os.listdir(scratch):
        try:
            os.remove(os.path.join(scratch, f))
        except OSError:
            pass
    try:
        os.rmdir(scratch)
    except OSError:
        pass
    for l in lines:
        print(l)
    print('%s %s tier=%s seed=%d cases=%d nontrivial=%d monitor_evals=%d wall=%.1fs' % (
        cid, verdict.upper(), tier, seed, agg['evaluations'], len(agg['nontrivial_sigs']),
        sum(agg['oracle_evals'].values()), wall))
    return {'held': 0, 'violated': 1, 'inconclusive': 2}[verdict]


def hist(agg):
    from collections import Counter
    c = Counter()
    ex = {}
    for v in agg['violations']:
        d = v.get('detail')
        head = d[:2] if isinstance(d, list) else d
        key = (v.get('oracle'), v.get('mechanism'), json.dumps(head, default=str)[:100])
        c[key] += 1
        ex.setdefault(key, v)
    for key, n in c.most_common(40):
        print('HIST %5d %s' % (n, key))
        print('       e.g. %s' % json.dumps(ex[key].get('detail'), default=str)[:700])


def fold(results):
    agg = {'evaluations': 0, 'nontrivial_sigs': set(), 'stats': {}, 'oracle_evals': {},
           'violations': [], 'samples': [], 'timeouts': [], 'errors': [], 'coverage': {},
           'classes': {}, 'stopped_early': 0, 'known_counts': {}}
    for r in results:
        for k, v in r.get('known_counts', {}).items():
            agg['known_counts'][k] = agg['known_counts'].get(k, 0) + v
        agg['evaluations'] += r['evaluations']
        agg['nontrivial_sigs'].update(r['nontrivial_sigs'])
        for k, v in r['stats'].items():
            agg['stats'][k] = agg['stats'].get(k, 0) + v
        for k, v in r['oracle_evals'].items():
            agg['oracle_evals'][k] = agg['oracle_evals'].get(k, 0) + v
        for k, v in r.get('classes', {}).items():
            agg['classes'][k] = agg['classes'].get(k, 0) + v
        for k, v in r.get('coverage', {}).items():
            agg['coverage'].setdefault(k, set()).update(v)
        agg['violations'] += r['violations']
        agg['samples'] += r['samples']
        agg['timeouts'] += r['timeouts']
        agg['errors'] += r['errors']
        agg['stopped_early'] += 1 if r.get('stopped_early') else 0
    return agg


def judge(cid, mod, agg, infra, known, plan):
    lines = []
    new = []
    seen_known = {}
    for v in agg['violations']:
        slug = v.get('mechanism')
        if slug and (cid, slug) in known:
            seen_known.setdefault(slug, []).append(v)
        else:
            new.append(v)
    for slug, vs in sorted(seen_known.items()):
        lines.append('KNOWN-FINDING: property=%s mechanism=%s %s (matched %d cases this run)' % (
            cid, slug, known[(cid, slug)], agg.get('known_counts', {}).get(slug, len(vs))))
    agg['known_matched'] = {k: agg.get('known_counts', {}).get(k, len(v)) for k, v in seen_known.items()}
    if new:
        rdir = os.path.join(HOME, 'replays', cid)
        os.makedirs(rdir, exist_ok=True)
        shown = set()
        for v in new:
            key = (v.get('oracle'), v.get('mechanism'))
            if key in shown and len(shown) > 0:
                continue
            shown.add(key)
            path = os.path.join(rdir, '%s.json' % sig_of(v['spec']))
            json.dump({'property': cid, 'spec': v['spec'], 'oracle': v.get('oracle'),
                       'detail': v.get('detail'), 'mechanism': v.get('mechanism'),
                       'events': v.get('events')}, open(path, 'w'), indent=1, default=str)
            lines.append('VIOLATION property=%s replay=%s' % (cid, os.path.relpath(path, HOME)))
            lines.append('  oracle=%s detail=%s' % (v.get('oracle'), json.dumps(v.get('detail'), default=str)[:600]))
            if len(shown) >= 8:
                break
        lines.append('  (%d violating cases in total)' % len(new))
        return 'violated', lines
    reasons = list(infra)
    if agg['errors']:
        reasons.append('harness errors in %d cases: %s' % (len(agg['errors']), agg['errors'][0]))
    if agg['timeouts']:
        reasons.append('%d cases hit the wall-clock watchdog: %s' % (len(agg['timeouts']), json.dumps(agg['timeouts'][0], default=str)[:300]))
    need = getattr(mod, 'REQUIRED_ORACLES', [])
    for o in need:
        if agg['oracle_evals'].get(o, 0) == 0:
            reasons.append('deciding monitor %r was never evaluated' % o)
    if len(agg['nontrivial_sigs']) < plan.get('min_nontrivial', 2):
        reasons.append('only %d non-trivial cases' % len(agg['nontrivial_sigs']))
    if agg['evaluations'] < plan.get('min_cases', 1):
        reasons.append('only %d cases executed (minimum %d)' % (agg['evaluations'], plan.get('min_cases', 1)))
    if reasons:
        for r in reasons:
            lines.append('INCONCLUSIVE property=%s reason=%s' % (cid, r))
        return 'inconclusive', lines
    return 'held', lines


def write_evidence(cid, mod, tier, seed, agg, wall, verdict, plan):
    cov = {
        'evaluations': agg['evaluations'],
        'distinct_nontrivial': len(agg['nontrivial_sigs']),
        'rule': mod.RULE,
        'samples': agg['samples'][:4],
        'exhaustive': bool(plan.get('exhaustive', False)),
        'monitor_evaluations_by_oracle': dict(sorted(agg['oracle_evals'].items())),
        'observed': dict(sorted(agg['stats'].items())),
        'classes': dict(sorted(agg['classes'].items())),
        'anchor_lines_executed': {k: len(v) for k, v in sorted(agg['coverage'].items())},
        'known_findings_matched': agg.get('known_matched', {}),
        'verdict': verdict,
        'workers_stopped_at_deadline': agg['stopped_early'],
    }
    ev = {
        'property_id': cid,
        'tier': tier,
        'seed': seed,
        'level': mod.LEVEL,
        'coverage': cov,
        'assumptions': list(getattr(mod, 'ASSUMPTIONS', [])),
        'wall_s': round(wall, 2),
        'violations': len([v for v in agg['violations'] if v.get('mechanism') not in agg.get('known_matched', {})]),
    }
    os.makedirs(os.path.join(HOME, 'evidence'), exist_ok=True)
    path = os.path.join(HOME, 'evidence', '%s.json' % cid)
    tmp = path + '.tmp'
    json.dump(ev, open(tmp, 'w'), indent=1, default=str)
    os.replace(tmp, path)


def replay(cid, mod, path):
    from vmon import worker
    if not os.path.isabs(path):
        path = os.path.join(HOME, path)
    rec = json.load(open(path))
    res = worker.run_case(mod, rec['spec'], 300)
    known = read_known()
    bad = [v for v in res.get('viol', []) if (cid, v.get('mechanism')) not in known]
    for v in res.get('viol', []):
        print('  oracle=%s mechanism=%s detail=%s' % (v.get('oracle'), v.get('mechanism'),
                                                       json.dumps(v.get('detail'), default=str)[:1500]))
    if res.get('timeout') or res.get('error'):
        print('INCONCLUSIVE property=%s reason=%s' % (cid, res.get('timeout') or res.get('error')))
        return 2
    if bad:
        print('VIOLATION property=%s replay=%s' % (cid, os.path.relpath(path, HOME)))
        return 1
    print('%s replay: no violation' % cid)
    return 0


if __name__ == '__main__':
    sys.exit(main())
