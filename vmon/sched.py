"""Scheduling workload: 1..N ledger processes over shared variables, driven by a
sequence of run_for()/update() calls; plus the exact-time reference model R1."""
from fractions import Fraction as F
from decimal import Decimal as D

DYADIC_TS = [0.125, 0.25, 0.375, 0.5, 0.75, 1.0, 1.25, 1.5, 2.0, 3.0]
DYADIC_IV = [0.125, 0.25, 0.5, 1.0, 1.5, 2.0, 2.75, 3.0, 4.0]
DEC = {
    1: {'ts': ['0.1', '0.2', '0.3', '0.7', '0.5', '1.1'], 'iv': ['0.1', '0.3', '0.7', '1.0', '1.3', '2.1']},
    2: {'ts': ['0.07', '0.25', '0.33', '0.1', '0.01', '0.5'], 'iv': ['0.07', '0.25', '0.5', '0.66', '1.0', '0.21']},
    3: {'ts': ['0.001', '0.125', '0.333', '0.054', '0.2', '0.007'], 'iv': ['0.054', '0.125', '0.333', '0.5', '0.021', '1.0']},
}


def gen_ts(r, grid, prec, hostile=False):
    if grid == 'dyadic':
        pool = DYADIC_TS
    else:
        pool = [float(x) for x in DEC[prec]['ts']]
    k = r.random()
    if hostile and k < 0.45:
        return {'kind': 'poll', 'seq': [r.choice(pool) for _ in range(r.randint(2, 5))]}
    if k < 0.6:
        return {'kind': 'const', 'v': r.choice(pool)}
    # 'param': as 'indexed', but through the default calculate_timestep and a parameter the process changes
    return {'kind': 'indexed' if k < 0.9 else 'param', 'seq': [r.choice(pool) for _ in range(r.randint(2, 4))]}


def gen_calls(r, grid, prec, maxcalls=6, end_with_update=True, zero=False):
    pool = DYADIC_IV if grid == 'dyadic' else [float(x) for x in DEC[prec]['iv']]
    calls = []
    for _ in range(r.randint(1, maxcalls)):
        k = r.random()
        # (an empty interval is legal: forced, it still completes processes an earlier call left behind)
        calls.append([0.0 if zero and r.random() < 0.1 else r.choice(pool), 'update' if k < 0.15 else (k < 0.4)])
    if end_with_update:
        calls.append([r.choice(pool), 'update'])
    return calls


def min_ts(procs):
    return min([min([p['ts']['v']] if p['ts']['kind'] == 'const' else p['ts']['seq']) for p in procs] or [1.0])


def cap_events(r, procs, calls, grid, prec, cap=260):
    """Keep a case cheap: bound (total simulated time / smallest timestep) * processes by
    replacing the longest intervals with shorter grid values."""
    pool = sorted(DYADIC_IV if grid == 'dyadic' else [float(x) for x in DEC[prec]['iv']])
    for _ in range(40):
        est = sum(c[0] for c in calls) / min_ts(procs) * max(1, len(procs))
        if est <= cap:
            break
        j = max(range(len(calls)), key=lambda i: calls[i][0])
        smaller = [x for x in pool if x < calls[j][0]]
        if smaller:
            calls[j][0] = r.choice(smaller)
        elif len(calls) > 1:
            calls.pop(j)
        else:
            break
    return calls


def build(spec, engine_cls=None, emitter=None, extra_steps=None, extra_topology=None, extra_flow=None):
    """Engine for a sched spec. Processes p<i> share 'log', 'flag'; each has
    its own 'own'/'acc'/'clock' unless spec says they share 'acc'."""
    from vmon.sensors import MonEngine, Ledger, Mon
    if Mon.cur is not None:
        Mon.cur.t0 = spec.get('t0', 0)
    procs = {}
    topo = {}
    for p in spec['procs']:
        pid = p['pid']
        params = {'pid': pid, 'ts': p['ts'], 'cond': p.get('cond'), 'toggle': p.get('toggle', 0),
                  'amount': p.get('amount', 1), 'amount2': p.get('amount2'), 'reset_at': p.get('reset_at'), 'tvar': p.get('tvar'), 'blob': p.get('blob'), 'pair': p.get('pair'), 'tally': p.get('tally'), 'vec': p.get('vec'), 'timestep': 1.0}
        if p.get('fail_at') is not None:
            params['fail_at'] = p['fail_at']
        if p.get('cond_path'):
            params['_condition'] = ('flag',)
            params['cond'] = None
        if p.get('parallel'):
            params['_parallel'] = True
        name = 'p%d' % pid
        if p['ts']['kind'] == 'param':
            from vmon.sensors import LedgerP
            params['timestep'] = p['ts']['seq'][0]
            procs[name] = LedgerP(params)
        else:
            procs[name] = Ledger(params)
        topo[name] = {
            'log': ('log',),
            'own': ('own', name),
            'acc': ('shared_acc',) if p.get('shared_acc') else ('acc', name),
            'clock': ('clock', name),
            'flag': ('flag',),
        }
        if p.get('amount2'):
            topo[name]['acc2'] = topo[name]['acc']
        if p.get('tvar'):
            topo[name]['tv'] = ('time',)
        if p.get('blob'):
            topo[name]['blob'] = ('blob',)
        if p.get('pair'):
            topo[name]['da'] = topo[name]['db'] = ('pair', name)
        if p.get('vec'):
            topo[name]['vec'] = ('vec', name)
            topo[name]['vec2'] = ('vec2', name)
    steps = dict(extra_steps or {})
    topo.update(extra_topology or {})
    flow = dict(extra_flow or {})
    kw = dict(display_info=False, emitter=emitter or {'type': 'vmon_rec'},
              initial_global_time=spec.get('t0', 0), emit_step=spec.get('emit_step', 1))
    if spec.get('precision') is not None:
        kw['global_time_precision'] = spec['precision']
    if spec.get('profile'):
        kw['profile'] = True
    cls = engine_cls or MonEngine
    for j in range(spec.get('nsteps', 0)):
        from vmon.sensors import LedgerStep
        sp = {'sid': 's%d' % j}
        if spec.get('parallel_steps'):
            sp['_parallel'] = True
        steps['s%d' % j] = LedgerStep(sp)
        topo['s%d' % j] = {'log': ('log',)}
        if spec.get('step_flow') == 'layer':      # flow steps without dependencies: one layer
            flow['s%d' % j] = []
    if spec.get('duck_step'):
        # a step that is not a Step subclass (it overrides is_step()), listed among the processes
        from vmon.sensors import LedgerDuck
        sp = {'sid': 'zduck'}
        if spec.get('parallel_steps'):
            sp['_parallel'] = True
        procs['zduck'] = LedgerDuck(sp)
        topo['zduck'] = {'log': ('log',)}
    if not procs and not steps:
        # nothing at all: an engine can be built for it through an empty Composite
        from vivarium.core.composer import Composite
        return cls(composite=Composite({'processes': {}, 'topology': {}}), **kw)
    return cls(processes=procs or None, steps=steps or None, flow=flow or None, topology=topo, **kw)


def budget_for(spec):
    """Upper bound on clock assignments of one call: the loop assigns the clock
    once or twice per iteration; a terminating schedule has at most one
    iteration per distinct event time plus one per call end."""
    n = len(spec['procs'])
    tsmin = min([min([p['ts']['v']] if p['ts']['kind'] == 'const' else p['ts']['seq']) for p in spec['procs']] or [1.0])

    def fn(interval):
        import math
        return 6 * (n + 1) * (int(math.ceil(interval / tsmin)) + 2) + 100
    return fn


# ---------------------------------------------------------------------------
# R1: exact time model for always-on processes with re-poll-stable timesteps

def num(x, grid):
    """Exact value of a grid number."""
    if grid == 'dyadic':
        return F(x)
    return F(D(repr(x)))


def model_always_on(pspec, calls, t0, grid):
    """Intervals of an always-on process whose timestep answer depends only on
    its own invocation index. Returns list of (k, S, E, arg) with exact
    rationals, and the entry of the interval left pending (or None)."""
    ts = pspec['ts']

    def answer(k):
        return num(ts['v'], grid) if ts['kind'] == 'const' else num(ts['seq'][k % len(ts['seq'])], grid)
    S = num(t0, grid)
    k = 0
    out = []
    t = num(t0, grid)
    for interval, force in calls:
        end = t + num(interval, grid)
        while S < end:
            E = S + answer(k)
            if force:
                E = min(E, end)
            if E <= end:
                out.append((k, S, E, E - S))
                S = E
                k += 1
            else:
                break
        t = end
    return out, S, t


def as_float(q, grid):
    return float(q)
