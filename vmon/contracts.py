"""icontract-based runtime contracts on real vivarium functions.

Conditions *record* into a sink and return True (a raising contract would abort
what it observes); every evaluation is counted, 0 evaluations => inconclusive.
``install`` re-points every module attribute and registry entry that was bound
to the original function before decoration."""
import sys

import icontract


class ContractBroken(Exception):
    pass


class Sink:
    def __init__(self):
        self.viol = []
        self.evals = {}

    def reset(self):
        self.viol = []
        self.evals = {}

    def record(self, oracle, ok, detail=None):
        self.evals[oracle] = self.evals.get(oracle, 0) + 1
        if not ok and len(self.viol) < 50:
            if callable(detail):
                detail = detail()
            self.viol.append({'oracle': oracle, 'detail': detail, 'mechanism': None})
        return True


SINK = Sink()
_installed = {}


def wrap(func, posts=(), snapshots=()):
    """posts: condition functions (named defs whose parameters are a subset of
    func's parameters + result + OLD); snapshots: (capture function, name)."""
    wrapped = func
    for cond in posts:
        wrapped = icontract.ensure(cond, error=ContractBroken)(wrapped)
    for cap, name in snapshots:
        wrapped = icontract.snapshot(cap, name=name)(wrapped)
    return wrapped


def repoint(original, replacement, prefixes=('vivarium', 'vmon')):
    """Replace every module-level reference to ``original`` in loaded modules."""
    n = 0
    for modname, mod in list(sys.modules.items()):
        if mod is None or not modname.startswith(prefixes):
            continue
        for attr, val in list(vars(mod).items()):
            if val is original:
                setattr(mod, attr, replacement)
                n += 1
    return n


def install(modname, funcname, posts=(), snapshots=()):
    key = (modname, funcname)
    if key in _installed:
        return _installed[key]
    mod = sys.modules[modname]
    original = getattr(mod, funcname)
    wrapped = wrap(original, posts, snapshots)
    wrapped.__vmon_original__ = original
    repoint(original, wrapped)
    _installed[key] = wrapped
    return wrapped


def install_registry(registry, name, posts=(), snapshots=()):
    """Wrap the function registered under ``name`` (registries keep their own
    reference, bound before decoration)."""
    original = registry.access(name)
    if getattr(original, '__vmon_original__', None) is not None:
        return original
    wrapped = wrap(original, posts, snapshots)
    wrapped.__vmon_original__ = original
    registry.registry[name] = wrapped
    repoint(original, wrapped)
    return wrapped
