"""One parallel-process scenario, run in its own interpreter (a leaked worker would
otherwise block the checking process at exit). Reads a JSON spec from argv[1],
prints 'RESULT <json>' and leaves through os._exit.

modes: the same spec is run serially (no _parallel flags) and in parallel inside
this interpreter, one after the other; the caller compares the observations."""
import faulthandler
import gc
import json
import multiprocessing
import os
import sys
import time
import warnings

warnings.simplefilter('ignore')
faulthandler.enable()


def worker_state(pid):
    try:
        with open('/proc/%d/stat' % pid) as f:
            return f.read().rsplit(')', 1)[1].split()[0]
    except (FileNotFoundError, ProcessLookupError):
        return None


def jsonable(x):
    if isinstance(x, dict):
        return {str(k): jsonable(v) for k, v in x.items()}
    if isinstance(x, (list, tuple)):
        return [jsonable(v) for v in x]
    if isinstance(x, str) and x.startswith('!ProcessSerializer['):
        return '!ProcessSerializer'        # (the parameters differ between the modes by the _parallel flag itself)
    if isinstance(x, (int, float, str, bool)) or x is None:
        return x
    return repr(x)


def structure(tree, Process):
    if isinstance(tree, dict):
        return {k: structure(v, Process) for k, v in tree.items()}
    if isinstance(tree, Process):
        try:
            return 'P:%s' % tree.parameters.get('tag', tree.parameters.get('pid', tree.name))
        except Exception as e:  # an ended parallel process cannot answer
            return 'P:<%s>' % type(e).__name__
    if isinstance(tree, (list, tuple)):
        return [structure(v, Process) for v in tree]
    return tree


REGISTRY = []      # (pid, ParallelProcess) of the current mode, strong references until the deletion check


def run_mode(spec, parallel, PIDS):
    from vivarium.core.process import Process
    from vmon import sched, structw, sensors
    from vmon.sensors import Mon, plain_values
    out = {'exc': None, 'end_exc': None, 'pending_sends': 0}
    # the split / binomial dividers draw from the global generators: same draws in both modes
    import random
    import numpy
    random.seed(20260928)
    numpy.random.seed(20260928)
    m = Mon()
    Mon.cur = m
    e = None
    comp = None
    try:
        if spec['workload'] == 'sched':
            s = json.loads(json.dumps(spec['spec']))
            for p in s['procs']:
                p['parallel'] = bool(parallel and p['pid'] in spec['parallel'])
            s['parallel_steps'] = bool(parallel and spec.get('parallel_steps'))
            e = sched.build(s, emitter={'type': 'timeseries'})
            calls = s['calls']
            if spec.get('poison'):
                # a value that cannot be sent to a worker sits in a variable a parallel process reads
                import threading
                e.state.get_path(('blob',)).value = threading.Lock()
        else:
            s = json.loads(json.dumps(spec['spec']))
            s['parallel_cells'] = bool(parallel)
            s['parallel_cell_steps'] = bool(parallel and spec.get('parallel_steps'))
            s['viewers'] = False
            e, comp = structw.build(s, emitter={'type': 'timeseries'})
            calls = s['calls']
        stop_after = spec.get('stop_after')
        for k, (iv, force) in enumerate(calls):
            if stop_after is not None and k >= stop_after:
                break
            if force == 'update':
                e.update(iv)
            else:
                e.run_for(iv, force_complete=bool(force))
        if spec.get('poison'):
            e.state.get_path(('blob',)).value = 0
        out['rows'] = jsonable(e.emitter.get_data())
        out['final'] = jsonable(plain_values(e.state.get_value()))
        out['published'] = jsonable({'processes': structure(e.processes, Process), 'steps': structure(e.steps, Process),
                                     'flow': e.flow, 'topology': e.topology})
        out['time'] = e.global_time
    except BaseException as ex:  # noqa
        import traceback
        out['exc'] = '%s: %s' % (type(ex).__name__, str(ex)[:300])
        out['trace'] = traceback.format_exc()[-800:]
    finally:
        Mon.cur = None
    # workers of parallel processes that are no longer in the hierarchy (deleted / divided away) must
    # already be gone now - before the engine is ended or dropped, and before any garbage collection
    if e is not None and out['exc'] is None:
        try:
            from vivarium.core.process import ParallelProcess
            live = {id(n.value) for _, n in e.state.depth() if isinstance(n.value, ParallelProcess)}
            gone = [(pid, obj) for pid, obj in REGISTRY if id(obj) not in live]
            for _ in range(40):
                still = [pid for pid, obj in gone if worker_state(pid) not in (None, 'Z')]
                if not still:
                    break
                time.sleep(0.025)
            out['deleted_workers_alive'] = still if gone else []
            out['deleted_workers'] = len(gone)
        except Exception as ex:  # noqa
            out['deleted_workers_alive'] = []
            out['deleted_check_error'] = repr(ex)[:200]
    del REGISTRY[:]
    nend = spec.get('end', 1)
    if e is not None:
        for _ in range(nend):
            try:
                e.end()
            except BaseException as ex:  # noqa
                import traceback
                out['end_exc'] = '%s: %s' % (type(ex).__name__, str(ex)[:300])
                out['end_trace'] = traceback.format_exc()[-600:]
                break
    if e is not None and getattr(e, 'profiler', None) is not None:
        try:
            e.profiler.disable()      # only one cProfile may be active in an interpreter
        except Exception:
            pass
    e = None
    comp = None
    m.eng = None
    m.events = []
    gc.collect()
    return out


def main():
    spec = json.loads(sys.argv[1])
    faulthandler.dump_traceback_later(spec.get('hang_after', 120), exit=True)
    multiprocessing.set_forkserver_preload(['vivarium', 'vmon.sensors', 'vmon.structw'])
    from vivarium.core.process import ParallelProcess, Process
    PIDS = []
    orig_init = ParallelProcess.__init__

    def init(self, *a, **k):
        orig_init(self, *a, **k)
        PIDS.append(self.multiprocess.pid)
        REGISTRY.append((self.multiprocess.pid, self))
    ParallelProcess.__init__ = init
    result = {}
    for mode in spec.get('modes', ['serial', 'parallel']):
        result[mode] = run_mode(spec, mode == 'parallel', PIDS)
    # grace period, counted in bounded polling steps
    polls = 0
    alive = list(PIDS)
    while polls < 200:
        states = {p: worker_state(p) for p in PIDS}
        alive = [p for p, s in states.items() if s is not None and s != 'Z']
        zombies = [p for p, s in states.items() if s == 'Z']
        if not alive and not zombies:
            break
        time.sleep(0.025)
        polls += 1
    states = {p: worker_state(p) for p in PIDS}
    result['workers'] = {'started': len(PIDS), 'alive': [p for p, s in states.items() if s is not None and s != 'Z'],
                         'zombies': [p for p, s in states.items() if s == 'Z'], 'polls': polls,
                         'active_children': len(multiprocessing.active_children())}
    print('RESULT ' + json.dumps(result, default=str))
    sys.stdout.flush()
    # (os._exit skips multiprocessing's own clean-up: remove its temporary directory here)
    try:
        import shutil
        from multiprocessing import util as _mpu
        tmp = _mpu._current_process._config.get('tempdir') if hasattr(_mpu, '_current_process') else None
        tmp = tmp or multiprocessing.current_process()._config.get('tempdir')
        if tmp and os.path.basename(tmp).startswith('pymp-'):
            shutil.rmtree(tmp, ignore_errors=True)
    except Exception:
        pass
    os._exit(0)


if __name__ == '__main__':
    main()
