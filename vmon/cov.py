"""Anchor coverage: which lines of the functions a property is anchored in did
the workload execute?  sys.monitoring LINE events, local to the anchored code
objects; every location reports once and is then disabled (cost ~0)."""
import importlib
import sys

TOOL = 3


def _resolve(name):
    modname, qual = name.split(':')
    obj = importlib.import_module(modname)
    for part in qual.split('.'):
        obj = getattr(obj, part)
    obj = getattr(obj, '__func__', obj)
    obj = getattr(obj, '__wrapped__', obj)
    return obj.__code__


def start(anchors):
    if not anchors or not hasattr(sys, 'monitoring'):
        return None
    mon = sys.monitoring
    seen = {}
    try:
        mon.use_tool_id(TOOL, 'vmon-anchor-coverage')
    except ValueError:
        return None
    codes = {}
    for a in anchors:
        try:
            codes[_resolve(a)] = a
        except Exception:
            seen[a + ' (unresolved)'] = set()

    def on_line(code, line):
        name = codes.get(code)
        if name is not None:
            seen.setdefault(name, set()).add(line)
        return mon.DISABLE

    mon.register_callback(TOOL, mon.events.LINE, on_line)
    for code in codes:
        mon.set_local_events(TOOL, code, mon.events.LINE)
    for a in anchors:
        seen.setdefault(a, set())
    return seen


def stop(seen):
    if seen is None:
        return {}
    try:
        sys.monitoring.free_tool_id(TOOL)
    except Exception:
        pass
    return {k: sorted(v) for k, v in seen.items()}
