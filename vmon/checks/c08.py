"""C08 - updates are combined with the current value by the declared updater.

Monitor shape: (a) icontract postconditions on every registered updater function
(algebraic law + "update argument not modified"), evaluated on every call made
by the real Store; (b) Store-level and Engine-level batches over generated
hierarchies compared with a left-fold reference model; frame and
caller's-update-object oracles; units normalisation oracle."""
import copy

from vmon.util import Viol
from vmon import contracts

ID = 'C08'
LEVEL = 'exploration'
RULE = ('hierarchies of 1-3 nested branches with 1-5 variables each; every variable draws an updater from '
        '{accumulate(default), set, null, nonnegative_accumulate, merge, dict_value, user function} and a '
        'value kind from {int, dyadic float, int/float numpy array, list, dict, quantity (declared unit fg '
        'or s; updates in fg/pg/ng or s/ms)}; a batch gives each mentioned variable 1-3 updates (single, '
        '_multi_update list, per-update _updater override with _value by name or function); applied through '
        'Store.apply_update or through an Engine run of a process returning the batch; non-trivial = >=2 '
        'variables updated and (a _multi_update, an override, a quantity or an array present); distinct = '
        'distinct case spec')
PLAN = {'quick': {'n': 30000, 'min_cases': 1500}, 'thorough': {'n': 300000, 'min_cases': 30000}}
REQUIRED_ORACLES = ['structural_update_not_mutated', 'second_batch_value', 'store_value', 'frame', 'update_not_mutated', 'units_normalised',
                    'contract.accumulate', 'contract.set', 'contract.merge', 'contract.nonnegative_accumulate',
                    'contract.null', 'contract.dict_value', 'engine_value']
ANCHORS = ['vivarium.core.registry:update_merge', 'vivarium.core.registry:update_set',
           'vivarium.core.registry:update_null', 'vivarium.core.registry:update_accumulate',
           'vivarium.core.registry:update_nonnegative_accumulate', 'vivarium.core.registry:update_dictionary',
           'vivarium.core.store:Store._get_updater', 'vivarium.core.store:Store.apply_update']
ASSUMPTIONS = ['per-update _updater overrides always carry a _value',
               'quantity magnitudes are dyadic and conversions go to the smaller unit (exact in floats); compared with 1e-12 relative tolerance',
               'dict_value updates use keys present in the current value for in-place sub-updates']

UPDATERS = ['accumulate', 'accumulate', 'default', 'set', 'null', 'nonnegative_accumulate', 'merge',
            'dict_value', 'user_fn']
_env = {}


# ---------------------------------------------------------------------------
# reference algebra R4

def eq(a, b):
    np, Quantity = _env['np'], _env['Quantity']
    if isinstance(a, np.ndarray) or isinstance(b, np.ndarray):
        return isinstance(a, np.ndarray) and isinstance(b, np.ndarray) and a.shape == b.shape and \
            a.dtype.kind == b.dtype.kind and bool((a == b).all())
    if isinstance(a, Quantity) or isinstance(b, Quantity):
        if not (isinstance(a, Quantity) and isinstance(b, Quantity)):
            return False
        if a.units != b.units:
            return False
        if isinstance(a.magnitude, np.ndarray) or isinstance(b.magnitude, np.ndarray):
            return isinstance(a.magnitude, np.ndarray) and isinstance(b.magnitude, np.ndarray) and \
                a.magnitude.shape == b.magnitude.shape and bool((abs(a.magnitude - b.magnitude) <= 1e-12 * (1 + abs(b.magnitude))).all())
        return abs(a.magnitude - b.magnitude) <= 1e-12 * (1 + abs(b.magnitude))
    if isinstance(a, dict):
        return isinstance(b, dict) and a.keys() == b.keys() and all(eq(a[k], b[k]) for k in a)
    if isinstance(a, (list, tuple)):
        return type(a) is type(b) and len(a) == len(b) and all(eq(x, y) for x, y in zip(a, b))
    if isinstance(a, bool) or isinstance(b, bool):
        return type(a) is type(b) and a == b
    if isinstance(a, (int, float)) and isinstance(b, (int, float)):
        return isinstance(a, float) == isinstance(b, float) and a == b
    return type(a) is type(b) and a == b


def model(upd, v, u):
    np = _env['np']
    if upd in ('accumulate', 'default'):
        return v + u
    if upd == 'set':
        return u
    if upd == 'null':
        return v
    if upd == 'nonnegative_accumulate':
        s = v + u
        if isinstance(s, np.ndarray):
            s = s.copy()
            s[s < 0] = 0
            return s
        if isinstance(getattr(s, 'magnitude', None), np.ndarray):
            return np.where(s.magnitude < 0, 0.0, s.magnitude) * s.units
        return s if s >= 0 else 0 * s
    if upd == 'merge':
        out = copy.deepcopy(v)

        def mg(a, b):
            for k, x in b.items():
                if isinstance(x, dict) and isinstance(a.get(k), dict):
                    mg(a[k], x)
                else:
                    a[k] = copy.deepcopy(x)
        mg(out, u)
        return out
    if upd == 'dict_value':
        out = copy.deepcopy(v)
        for k, x in u.items():
            if k == '_add':
                for a in x:
                    out[a['key']] = copy.deepcopy(a['state'])
            elif k == '_delete':
                for d in x:
                    del out[d]
            else:
                out[k].update(copy.deepcopy(x))
        return out
    if upd == 'user_fn':
        return user_fn(v, u)
    raise ValueError(upd)


def user_fn(current, new):
    return current * 2 + new


# ---------------------------------------------------------------------------
# contracts on the registered updaters

def _snap2(current_value, new_value):
    return (copy.deepcopy(current_value), copy.deepcopy(new_value))


def _snap2d(current, update):
    return (copy.deepcopy(current), copy.deepcopy(update))


def _mk_post(name):
    def post(result, OLD):
        v, u = OLD.args
        try:
            exp = model(name, v, u)
            ok = eq(result, exp)
        except Exception as e:  # model not applicable to these arguments
            return True
        return contracts.SINK.record(
            'contract.' + name, ok,
            lambda: ('%s(%r, %r) returned %r, expected %r' % (name, v, u, result, exp))[:500])
    return post


def _mk_keep(name, argname):
    if argname == 'new_value':
        def keep(new_value, OLD):
            return contracts.SINK.record(
                'contract.update_arg_kept', eq(new_value, OLD.args[1]),
                lambda: ('%s modified its update argument: %r -> %r' % (name, OLD.args[1], new_value))[:500])
    else:
        def keep(update, OLD):
            return contracts.SINK.record(
                'contract.update_arg_kept', eq(update, OLD.args[1]),
                lambda: ('%s modified its update argument: %r -> %r' % (name, OLD.args[1], update))[:500])
    return keep


def setup():
    import numpy as np
    import vivarium  # noqa
    from vivarium.core.registry import updater_registry
    from vivarium.library.units import units, Quantity
    _env.update(np=np, units=units, Quantity=Quantity)
    for name in ('accumulate', 'set', 'null', 'nonnegative_accumulate', 'merge'):
        contracts.install_registry(updater_registry, name, posts=[_mk_post(name), _mk_keep(name, 'new_value')],
                                   snapshots=[(_snap2, 'args')])
    contracts.install_registry(updater_registry, 'dict_value',
                               posts=[_mk_post('dict_value'), _mk_keep('dict_value', 'update')],
                               snapshots=[(_snap2d, 'args')])
    if updater_registry.access('vmon_user_fn') is None:
        updater_registry.register('vmon_user_fn', user_fn)


# ---------------------------------------------------------------------------
# generation (JSON recipes)

def rvalue(r, kind):
    if kind == 'int':
        return r.randint(-5, 9)
    if kind == 'float':
        return r.randint(-40, 40) / 8
    if kind == 'iarr':
        return {'__arr__': [r.randint(-5, 5) for _ in range(3)]}
    if kind == 'farr':
        return {'__arr__': [r.randint(-20, 20) / 4 for _ in range(3)]}
    if kind == 'list':
        return [r.randint(0, 9) for _ in range(r.randint(0, 3))]
    if kind == 'mass':
        return {'__q__': r.randint(-40, 40) / 8, 'u': r.choice(['fg', 'pg', 'ng'])}
    if kind == 'time':
        return {'__q__': r.randint(-40, 40) / 8, 'u': r.choice(['s', 'ms'])}
    if kind == 'qarr':
        return {'__qa__': [r.randint(-40, 40) / 8 for _ in range(3)], 'u': r.choice(['fg', 'pg', 'ng'])}
    if kind == 'qlist':
        return [{'__q__': r.randint(0, 40) / 8, 'u': r.choice(['fg', 'pg', 'ng'])} for _ in range(r.randint(1, 3))]
    if kind == 'dict':
        return {k: (r.randint(0, 9) if r.random() < 0.65 else {'x': r.randint(0, 9), 'y': {'z': r.randint(0, 9)}})
                for k in r.sample('abcd', r.randint(0, 4))}
    if kind == 'dictv':
        return {k: {'n': r.randint(0, 9)} for k in r.sample('abcd', r.randint(0, 3))}
    raise ValueError(kind)


KINDS = {
    'accumulate': ['int', 'float', 'iarr', 'farr', 'list', 'mass', 'time', 'qarr'],
    'default': ['int', 'float', 'iarr', 'farr', 'mass'],
    'set': ['int', 'float', 'iarr', 'list', 'dict', 'mass', 'qlist', 'qarr'],
    'null': ['int', 'float', 'farr', 'mass'],
    'nonnegative_accumulate': ['int', 'float', 'iarr', 'farr', 'mass', 'qarr'],
    'merge': ['dict'],
    'dict_value': ['dictv'],
    'user_fn': ['int', 'float', 'farr'],
}


def gen_var(r):
    upd = r.choice(UPDATERS)
    kind = r.choice(KINDS[upd])
    var = {'upd': upd, 'kind': kind, 'default': rvalue(r, kind)}
    if kind == 'mass':
        var['default']['u'] = 'fg'
        var['units'] = r.choice(['fg', None])
        if var['units'] and r.random() < 0.4:
            var['default']['u'] = r.choice(['pg', 'ng'])      # declared units win over the unit the default is written in
    if kind == 'qarr':
        var['default']['u'] = 'fg'
        var['units'] = r.choice(['fg', None])
    if kind == 'time':
        var['default']['u'] = 'ms'
        var['units'] = r.choice(['ms', None])
        if var['units'] and r.random() < 0.4:
            var['default']['u'] = 's'
    if kind == 'qlist':
        for q in var['default']:
            q['u'] = 'fg'
        var['units'] = 'fg'
    if upd == 'user_fn':
        var['fn_by'] = r.choice(['name', 'function'])
    return var


def gen_update(r, var, cur_keys):
    upd, kind = var['upd'], var['kind']
    if upd == 'dict_value':
        ops = {}
        keys = list(cur_keys)
        if r.random() < 0.6:
            new = [k for k in 'efgh' if k not in keys][:r.randint(1, 2)]
            ops['_add'] = [{'key': k, 'state': {'n': r.randint(0, 9)}} for k in new]
            keys += new
            if new and r.random() < 0.3:
                # the same update goes on to change a field of the entry it has just added
                ops[new[0]] = {'n': r.randint(20, 29), 'm': 2}
        if keys and r.random() < 0.4:
            k = r.choice(list(cur_keys)) if cur_keys else None
            if k:
                ops[k] = {'n': r.randint(10, 19), 'm': 1}
        if cur_keys and r.random() < 0.4:
            d = r.choice(list(cur_keys))
            if d not in ops:
                ops['_delete'] = [d]
        return ops
    u = rvalue(r, kind)
    if kind == 'mass' and upd not in ('set',):
        pass
    return u


def gen(r, tier, i):
    if r.random() < 0.04:
        # structural updates (_add, _delete, _move, _generate, _divide): C09's workload, judged here only
        # on "the update object handed in is not modified"
        from vmon.checks import c09
        return {'family': 'structural', 'c09': c09.gen(r, tier, i)}
    nb = r.randint(1, 3)
    branches = []
    for b in range(nb):
        path = ['b%d' % b] + (['in'] if r.random() < 0.4 else []) + (['deep'] if r.random() < 0.2 else [])
        branches.append({'path': path, 'vars': {'v%d' % j: gen_var(r) for j in range(r.randint(1, 4 if tier == 'quick' else 5))}})
    def gen_batch(keys_of):
        batch = []
        for b in branches:
            for name, var in b['vars'].items():
                if r.random() < 0.25:
                    continue
                n = r.choice([1, 1, 1, 2, 3])
                keys = keys_of.setdefault((tuple(b['path']), name), list(var['default']) if var['kind'] == 'dictv' else [])
                ups = []
                for _ in range(n):
                    u = gen_update(r, var, keys)
                    if var['upd'] == 'dict_value':
                        for a in u.get('_add', []):
                            keys.append(a['key'])
                        for d in u.get('_delete', []):
                            keys.remove(d)
                    entry = {'u': u}
                    if var['upd'] != 'dict_value' and var['kind'] in ('int', 'float', 'farr', 'iarr') and r.random() < 0.2:
                        ov = r.choice(['set', 'accumulate', 'null', 'nonnegative_accumulate', 'user_fn'])
                        entry['override'] = ov
                        entry['override_by'] = r.choice(['name', 'function']) if ov == 'user_fn' else 'name'
                    ups.append(entry)
                batch.append({'path': b['path'] + [name], 'updates': ups})
        return batch
    alias = r.random() < 0.2
    if alias:
        # all variables of one mutable kind are declared with ONE default object (a module-level constant, or
        # the sub-schema shared by the children of a glob store): they must still evolve independently
        first = {}
        for b in branches:
            for var in b['vars'].values():
                if var['kind'] in ('dictv', 'dict', 'list', 'iarr', 'farr') and not var.get('units'):
                    var['default'] = copy.deepcopy(first.setdefault((var['kind']), var['default']))
    keys_of = {}
    batch = gen_batch(keys_of)
    via = r.choice(['store', 'store', 'engine'])
    # a second batch applied to the same store afterwards (state must not leak from the first one)
    batch2 = gen_batch(keys_of) if via == 'store' and r.random() < 0.5 else None
    return {'branches': branches, 'batch': batch, 'batch2': batch2, 'via': via, 'alias_defaults': alias}


# ---------------------------------------------------------------------------

def real(x):
    np, units = _env['np'], _env['units']
    if isinstance(x, dict):
        if '__arr__' in x:
            return np.array(x['__arr__'])
        if '__q__' in x:
            return x['__q__'] * getattr(units, x['u'])
        if '__qa__' in x:
            return np.array(x['__qa__']) * getattr(units, x['u'])
        return {k: real(v) for k, v in x.items()}
    if isinstance(x, list):
        return [real(v) for v in x]
    return x


def run(spec):
    if spec.get('family') == 'structural':
        from vmon.checks import c09
        res = c09.run(spec['c09'])
        ui = res.get('update_intact', {'evals': 0, 'viol': []})
        V = Viol()
        V.count('structural_update_not_mutated', ui['evals'] - (1 if ui['viol'] else 0))
        if ui['viol']:
            V.check('structural_update_not_mutated', False, ui['viol'][0])
        return {'viol': list(V), 'evals': V.evals, 'nontrivial': ui['evals'] >= 2, 'classes': ['structural'],
                'summary': {'structural_updates': ui['evals']}}
    from vivarium.core.store import Store
    from vivarium.core.engine import Engine
    from vivarium.core.process import Process
    units = _env['units']
    V = Viol()
    contracts.SINK.reset()
    # build schema
    schema = {}
    model_state = {}
    var_of = {}
    shared_defaults = {}
    for b in spec['branches']:
        node = schema
        for k in b['path']:
            node = node.setdefault(k, {})
        for name, var in b['vars'].items():
            cfg = {'_default': real(var['default'])}
            if spec.get('alias_defaults') and var['kind'] in ('dictv', 'dict', 'list', 'iarr', 'farr'):
                cfg['_default'] = shared_defaults.setdefault(var['kind'], cfg['_default'])
            if var['upd'] == 'user_fn':
                cfg['_updater'] = 'vmon_user_fn' if var.get('fn_by') == 'name' else user_fn
            elif var['upd'] != 'default':
                cfg['_updater'] = var['upd']
            if var.get('units'):
                cfg['_units'] = getattr(units, var['units'])
            node[name] = cfg
            p = tuple(b['path']) + (name,)
            var_of[p] = var
            model_state[p] = real(var['default'])
    schema['other'] = {'z': {'_default': 7}, 'w': {'_default': [1, 2], '_updater': 'set'}}

    def declared_units(var):
        return getattr(units, {'mass': 'fg', 'time': 'ms', 'qlist': 'fg', 'qarr': 'fg'}[var['kind']]) if var['kind'] in ('mass', 'time', 'qlist', 'qarr') else None

    # a batch as a nested update + the reference fold
    touched = set()
    rich = False

    def fold(batch):
        nonlocal rich
        update = {}
        for item in batch:
            p = tuple(item['path'])
            var = var_of[p]
            touched.add(p)
            ups = []
            cur = model_state[p]
            du = declared_units(var)
            for e in item['updates']:
                u = real(e['u'])
                name = e.get('override', var['upd'])
                if 'override' in e:
                    rich = True
                    how = name if name != 'user_fn' else ('vmon_user_fn' if e['override_by'] == 'name' else user_fn)
                    ups.append({'_value': u, '_updater': how})
                else:
                    ups.append(u)
                cur = model(name, cur, u)
                if du is not None and hasattr(cur, 'to'):
                    cur = cur.to(du)
                elif du is not None and isinstance(cur, list):
                    cur = [c.to(du) for c in cur]
            model_state[p] = cur
            if len(ups) > 1:
                rich = True
            node = update
            for k in p[:-1]:
                node = node.setdefault(k, {})
            node[p[-1]] = ups[0] if len(ups) == 1 else {'_multi_update': ups}
            if var['kind'] in ('mass', 'time', 'iarr', 'farr', 'qlist', 'qarr'):
                rich = True
        return update
    update = fold(spec['batch'])
    snap = copy.deepcopy(update)

    def val(tree, p):
        for k in p:
            tree = tree[k]
        return tree

    try:
        if spec['via'] == 'store':
            s = Store(copy.deepcopy(schema))
            s.apply_defaults()
            other_before = s.get_path(('other', 'w')).get_value()
            s.apply_update(update)
            after = s.get_value()
            tag = 'store_value'
        else:
            # one more variable, directly under the root, reached through two ports of the process: two
            # updates to one variable in one batch, with the variable's own updater
            rv = {'accumulate': (10, 1, 2, 13), 'nonnegative_accumulate': (10, -15, 4, 4), 'set': (10, 1, 2, None)}
            rupd = ['accumulate', 'nonnegative_accumulate', 'set'][len(spec['batch']) % 3]
            r0, ra, rb, rexp = rv[rupd]
            # a third port whose update names its own updater (applied after the other two: port order)
            third = len(spec['batch']) % 2 == 1 and rupd == 'accumulate'
            # the first port's update may itself be an explicit list of updates (which the engine must not extend)
            if rupd == 'accumulate' and not third:
                ra = {'_multi_update': [1, 0]}
            ra_before = copy.deepcopy(ra)

            kupd = ['set', 'merge'][len(spec['batch']) % 2]
            kvariant = (len(spec['batch']) // 2) % 4
            kpair = [({'k': 1, 'x': 5}, {'k': 2}), ({'k': 1}, {'k': 2, 'x': 5}), ({'x': 1}, {'y': 2}),
                     # three ports, the key that fewer updates share comes first (merge updater only)
                     ({'x': 5, 'k': 1}, {'k': 2}, {'x': 7, 'k': 3})][kvariant]
            if kvariant == 3:
                kupd = 'merge'
            kexp = kpair[-1] if kupd == 'set' else dict({'a': 1}, **{k: v for d in kpair for k, v in d.items()})

            class Batch(Process):
                def ports_schema(self):
                    sch = copy.deepcopy(schema)
                    sch['ra'] = {'_default': r0, '_updater': rupd}
                    sch['rb'] = {'_default': r0, '_updater': rupd}
                    if third:
                        sch['rc'] = {'_default': r0, '_updater': rupd}
                    # a dictionary-valued variable reached through a port of its own: setting it to {} empties it
                    sch['rd'] = {'_default': {'a': 1}, '_updater': 'set'}
                    # a dictionary-valued variable with the merge updater reached through two ports: one update is a
                    # plain dictionary (merged), the other names its own updater (set) - applied in port order
                    sch['ma'] = {'_default': {'a': 1}, '_updater': 'merge'}
                    sch['mb'] = {'_default': {'a': 1}, '_updater': 'merge'}
                    # a dictionary-valued variable (updater set or merge) that receives two plain dictionaries
                    # through two ports: two updates, applied one after the other
                    sch['ka'] = {'_default': {'a': 1}, '_updater': kupd}
                    sch['kb'] = {'_default': {'a': 1}, '_updater': kupd}
                    if len(kpair) == 3:
                        sch['kc'] = {'_default': {'a': 1}, '_updater': kupd}
                    return sch

                def next_update(self, timestep, states):
                    if self.parameters.get('done'):
                        return {}
                    out = dict(update, ra=ra, rb=rb, rd={}, ma={'y': 20}, mb={'_updater': 'set', '_value': {'x': 10}},
                               ka=copy.deepcopy(kpair[0]), kb=copy.deepcopy(kpair[1]))
                    if len(kpair) == 3:
                        out['kc'] = copy.deepcopy(kpair[2])
                    if third:
                        out['rc'] = {'_updater': 'set', '_value': 100}
                    return out
            proc = Batch({'timestep': 1.0})
            topo = {k: (k,) for k in schema}
            topo['ra'] = topo['rb'] = ('rootv',)
            topo['rd'] = ('rootd',)
            topo['ka'] = topo['kb'] = ('rootk',)
            if len(kpair) == 3:
                topo['kc'] = ('rootk',)
            mfirst = len(spec['batch']) % 4 < 2
            for port in (('ma', 'mb') if mfirst else ('mb', 'ma')):
                topo[port] = ('rootm',)
            mexp = {'x': 10} if mfirst else {'x': 10, 'y': 20}
            if third:
                topo['rc'] = ('rootv',)
                rexp = 100
            e = Engine(processes={'p': proc}, topology={'p': topo}, display_info=False, emitter='null')
            other_before = e.state.get_path(('other', 'w')).get_value()
            e.update(1.0)
            after = e.state.get_value()
            tag = 'engine_value'
            V.check('engine_value', after['rootv'] == rexp if rexp is not None else after['rootv'] in (ra, rb),
                    lambda: ('root-level variable (updater %s) with two updates %r, %r in one batch: %r -> %r' % (
                        rupd, ra, rb, r0, after['rootv'])))
            V.check('update_not_mutated', ra == ra_before,
                    lambda: ('the explicit _multi_update list a port returned was changed by the engine', ra_before, ra))
            V.check('engine_value', after['rootd'] == {},
                    lambda: ('dictionary-valued variable (updater set) updated with {}: holds %r' % (after['rootd'],)))
            V.check('engine_value', after['rootm'] == mexp,
                    lambda: ('dictionary-valued variable {"a": 1} (updater merge) with the updates {"y": 20} and {"_updater": "set", '
                             '"_value": {"x": 10}} in one batch (%s first): holds %r, expected %r' % (
                                 'merge' if mfirst else 'set', after['rootm'], mexp)))
            # Known finding F8: on their way two dictionaries for one node are merged key by key (the repository's own
            # test of inverse_topology expects that form); a variable that holds a dictionary gets them apart again
            # only as far as the merged form tells - with the set updater a key that only the second update carries,
            # or disjoint keys, end up in one update
            V.check('engine_value', after['rootk'] == kexp,
                    lambda: ('dictionary-valued variable {"a": 1} (updater %s) with the updates %r through %d ports in one batch: '
                             'holds %r, applied one after the other it would hold %r' % (kupd, kpair, len(kpair), after['rootk'], kexp)),
                    mechanism='dict-updates-merged-key-by-key' if (kupd == 'set' and kvariant in (1, 2)) else None)
            after = {k: v for k, v in after.items() if k not in ('rootv', 'rootd', 'rootm', 'rootk')}
        for p, var in var_of.items():
            got = val(after, p)
            exp = model_state[p]
            V.check(tag if p in touched else 'frame', eq(got, exp),
                    lambda: ('variable %s (updater %s, kind %s): got %r expected %r; batch %r' % (
                        '/'.join(p), var['upd'], var['kind'], got, exp, snap))[:700],
                    mechanism=None)
            du = declared_units(var)
            if du is not None and p in touched:
                V.check('units_normalised', (hasattr(got, 'units') and got.units == du) or
                        (isinstance(got, list) and all(hasattr(g, 'units') and g.units == du for g in got)),
                        lambda: ('variable %s not in declared units %s: %r' % ('/'.join(p), du, got)))
        V.check('frame', after['other']['z'] == 7 and after['other']['w'] == [1, 2] and
                after['other']['w'] is other_before, ('untouched branch changed', repr(after['other'])))
        V.check('update_not_mutated', eq(update, snap),
                lambda: ('the update object handed in was modified', repr(snap)[:300], repr(update)[:300]))
        if spec.get('batch2') and spec['via'] == 'store':
            update2 = fold(spec['batch2'])
            snap2 = copy.deepcopy(update2)
            s.apply_update(update2)
            after = s.get_value()
            for p, var in var_of.items():
                got = val(after, p)
                V.check('second_batch_value', eq(got, model_state[p]),
                        lambda: ('after a second batch, variable %s (updater %s, kind %s): got %r expected %r; batches %r then %r' % (
                            '/'.join(p), var['upd'], var['kind'], got, model_state[p], snap, snap2))[:800])
            V.check('update_not_mutated', eq(update, snap) and eq(update2, snap2),
                    lambda: ('an update object was modified by a later batch', repr(snap)[:300], repr(update)[:300]))
    except Exception as ex:
        import traceback
        V.check('store_value' if spec['via'] == 'store' else 'engine_value', False,
                ('apply raised', type(ex).__name__, str(ex)[:300], repr(snap)[:300], traceback.format_exc()[-300:]))
    viol = list(V) + contracts.SINK.viol
    evals = dict(V.evals)
    for k, n in contracts.SINK.evals.items():
        evals[k] = evals.get(k, 0) + n
    classes = sorted({'upd_' + v['upd'] for v in var_of.values()} | {'kind_' + v['kind'] for v in var_of.values()} |
                     {'via_' + spec['via']})
    return {'viol': viol, 'evals': evals, 'stats': {'variables': len(var_of), 'updated': len(touched)},
            'nontrivial': len(touched) >= 2 and rich, 'classes': classes,
            'summary': {'variables': len(var_of), 'updated': len(touched), 'via': spec['via']}}


MANIFEST = {
    'text': 'Exploration: generated hierarchies and update batches (all registered updaters, user functions, per-update overrides, _multi_update lists, arrays, dicts, quantities in compatible units) are applied by the real Store, directly and through an Engine run; icontract postconditions on the registered updater functions judge every leaf call, a left-fold reference model judges the resulting state, frame, units and the untouched update object.',
    'note': 'Trusts the updater algebra R4 in checks/c08.py (merge as documented in doc/guides/processes.rst); overrides always carry _value; exact dyadic magnitudes.',
    'technique': 'runtime monitoring: icontract postconditions on every updater call + left-fold reference model over generated batches',
}
