"""C11 - division gives daughters what the dividers promise; daughters are independent.

Monitor shape: (a) icontract postconditions on every registered divider
function (conservation / partition / copy laws) evaluated on every call made by
the real Store.divide, plus a direct value grid; (b) engine-level division of a
generated mother compartment: the hierarchy before/after the dividing batch is
compared with the per-divider relations, explicit initial state and defaults;
(c) independence: daughters are then driven one at a time with in-place updaters
and the other daughter / outside state must not move."""
import copy

from vmon.util import Viol
from vmon import contracts

ID = 'C11'
LEVEL = 'exploration'
RULE = ('mother compartments with 16 variables (two of them declared only by an outside process through a glob sub-schema) covering every registered divider (set, split on ints/floats/'
        'quantities, split_dict, binomial, zero, set_value with config, default, custom function with topology, '
        'branch-level divider) and mutable values (list, numpy array, dict_value dict); mother values from grids '
        '(0, 1, odd, even, 2^53+-1, 10^17+3, 2^70-ish, numpy ints, dyadic floats, quantities, dicts of 0-9 keys); '
        'agents store at depth 0-2; daughters given explicit processes or copies of the mother processes; '
        'explicit daughter initial state on a random subset of variables; optional second generation; '
        'then each daughter driven alone through in-place updaters; non-trivial = division happened and the '
        'independence phase applied >=2 in-place updates; distinct = distinct case spec. A direct grid over '
        'divider functions accompanies every case.')
PLAN = {'quick': {'n': 4000, 'min_cases': 300}, 'thorough': {'n': 40000, 'min_cases': 5000}}
REQUIRED_ORACLES = ['relation.branch_dict_form', 'relation.outside_declared', 'relation.split_int', 'relation.split_float', 'relation.split_dict', 'relation.binomial',
                    'relation.set', 'relation.zero', 'relation.set_value', 'explicit_initial_state',
                    'defaults_complete', 'mother_removed', 'outside_unchanged', 'separate_instances',
                    'independence', 'contract.split', 'contract.split_dict', 'contract.binomial',
                    'contract.set', 'contract.zero', 'contract.set_value']
ANCHORS = ['vivarium.core.registry:divide_split', 'vivarium.core.registry:divide_set',
           'vivarium.core.registry:divide_split_dict', 'vivarium.core.registry:divide_binomial',
           'vivarium.core.registry:divide_zero', 'vivarium.core.registry:divide_set_value',
           'vivarium.core.store:Store.divide_value', 'vivarium.core.store:Store.divide',
           'vivarium.core.store:Store._get_divider']
ASSUMPTIONS = ['non-negative mother values; random divider outcomes are judged relationally',
               'floats/quantities dyadic so that halves are exact']

INT_GRID = [0, 1, 2, 3, 7, 8, 101, 2 ** 53 - 1, 2 ** 53 + 1, 10 ** 17 + 3, 2 ** 70 + 5, 10 ** 6]
FLOAT_GRID = [0.0, 1.0, 2.5, 0.125, 1e300, 1e-300, 12345.75]
_env = {}


# ------------------------------------------------------------------ contracts

def _post_split(state, result):
    np, Quantity = _env['np'], _env['Quantity']
    a, b = result
    if isinstance(state, (int, np.integer)) and not isinstance(state, bool):
        ok = int(a) + int(b) == int(state) and abs(int(a) - int(b)) <= 1
        return contracts.SINK.record('contract.split', ok,
                                     lambda: 'split(%r) -> %r, %r: halves do not sum to the mother / differ by more than 1' % (state, a, b))
    if isinstance(state, (float, Quantity)):
        if isinstance(state, float) and state == float('inf'):
            return True
        ok = a == b and a == state / 2
        return contracts.SINK.record('contract.split', ok, lambda: 'split(%r) -> %r, %r' % (state, a, b))
    return True


def _post_split_dict(state, result):
    a, b = result
    m = state or {}
    ok = not (set(a) & set(b)) and dict(a, **b) == m and len(a) + len(b) == len(m)
    return contracts.SINK.record('contract.split_dict', ok, lambda: 'split_dict(%r) -> %r, %r' % (state, a, b))


def _post_binomial(state, result):
    a, b = result
    ok = a + b == state and 0 <= a <= state and 0 <= b <= state
    return contracts.SINK.record('contract.binomial', ok, lambda: 'binomial(%r) -> %r, %r' % (state, a, b))


def _post_set(state, result):
    a, b = result
    return contracts.SINK.record('contract.set', _same(a, state) and _same(b, state),
                                 lambda: 'set(%r) -> %r, %r' % (state, a, b))


def _post_zero(state, result):
    return contracts.SINK.record('contract.zero', list(result) == [0, 0], lambda: 'zero(%r) -> %r' % (state, result))


def _post_set_value(state, config, result):
    return contracts.SINK.record('contract.set_value', list(result) == [config['value']] * 2,
                                 lambda: 'set_value(%r, %r) -> %r' % (state, config, result))


def _same(a, b):
    np = _env['np']
    if isinstance(a, np.ndarray) or isinstance(b, np.ndarray):
        return isinstance(a, np.ndarray) and isinstance(b, np.ndarray) and a.shape == b.shape and bool((a == b).all())
    if isinstance(a, dict):
        return isinstance(b, dict) and a.keys() == b.keys() and all(_same(a[k], b[k]) for k in a)
    if isinstance(a, (list, tuple)):
        return isinstance(b, (list, tuple)) and len(a) == len(b) and all(_same(x, y) for x, y in zip(a, b))
    try:
        return bool(a == b)
    except Exception:
        return False


def inplace_add(current, new):
    current += new
    return current


def inplace_extend(current, new):
    current.extend(new)
    return current


def fn_divider(value, state):
    """custom divider with topology: first daughter gets value + x, second value - x."""
    x = state['x']
    return [value + x, value - x]


def branch_divider_cfg(value, config):
    """branch-level divider given in dictionary form with a config: shares by the configured weights."""
    w = config['w']
    return [{'a': value['a'] * w, 'b': value['b']}, {'a': value['a'], 'b': value['b'] * w}]


def branch_divider(value):
    """branch-level divider: daughter 1 keeps 'a', daughter 2 keeps 'b'."""
    return [{'a': value['a'], 'b': 0}, {'a': 0, 'b': value['b']}]


def setup():
    import numpy as np
    import vivarium  # noqa
    from vivarium.core.registry import divider_registry, updater_registry
    from vivarium.library.units import units, Quantity
    _env.update(np=np, units=units, Quantity=Quantity)
    for name, post in (('split', _post_split), ('split_dict', _post_split_dict), ('binomial', _post_binomial),
                       ('set', _post_set), ('zero', _post_zero), ('set_value', _post_set_value)):
        contracts.install_registry(divider_registry, name, posts=[post])
    for name, fn in (('vmon_inplace_add', inplace_add), ('vmon_inplace_extend', inplace_extend)):
        if updater_registry.access(name) is None:
            updater_registry.register(name, fn)


# ------------------------------------------------------------------ generation

def gen(r, tier, i):
    nkeys = r.randint(0, 9)
    mother = {
        'i_set': r.choice(INT_GRID),
        'i_split': r.choice(INT_GRID),
        'np_split': r.choice([0, 1, 7, 10 ** 9 + 1, 2 ** 40 + 1]),
        'f_split': r.choice(FLOAT_GRID),
        'q_split': r.choice(FLOAT_GRID[:-3] + [3.0, 7.5]),
        'd_sd': {'k%d' % j: j for j in range(nkeys)},
        'bino': r.choice([0, 1, 5, 100, 10 ** 6, 7.5, 1301.25]),
        'z': r.randint(1, 99),
        # a second variable with the zero divider and an unusual (legal) mother value
        'z2': r.choice([5, 0.5, 'inf', '-inf', [1, 2], 'abc', {'k': 1}, None, True]),
        'sv': r.randint(1, 99),
        # a second set_value variable whose configured value is itself a sequence / dictionary (index into SV2)
        'sv2': r.randrange(5),
        'nodiv': r.randint(0, 99),
        'fnv': r.randint(10, 99),
        'grp': {'a': r.randint(1, 99), 'b': r.randint(1, 99)},
        'pool': {'q1': r.randint(1, 99), 'q2': r.randint(100, 199), 'q3': r.randint(200, 299)},
        'grp2': {'a': r.randint(1, 99), 'b': r.randint(1, 99)},
        'lst': [r.randint(0, 9) for _ in range(r.randint(0, 3))],
        'arr': [r.randint(0, 9), r.randint(0, 9)],
        'dv': {'m%d' % j: {'n': j} for j in range(r.randint(0, 2))},
        'env_n': r.choice([0, 1, 7, 64, 101, 10 ** 17 + 3]),
        'env_tag': 'mother',
    }
    # (d_sd holds a dictionary: the explicit value replaces the daughter's share, it is not merged into it)
    overridable = ['i_set', 'i_split', 'f_split', 'bino', 'z', 'sv', 'nodiv', 'd_sd']
    return {
        'depth': r.choice([0, 1, 2]),
        'mother': mother,
        'explicit_processes': r.random() < 0.5,
        'd1_init': {k: ({'zz': 9} if k == 'd_sd' else 5000 + j) for j, k in enumerate(r.sample(overridable, r.randint(0, 3)))},
        'd2_init': {k: ({'zz': 8} if k == 'd_sd' else 6000 + j) for j, k in enumerate(r.sample(overridable, r.randint(0, 2)))},
        'extra_default': r.randint(1, 9),
        'gen2': r.random() < (0.35 if tier == 'quick' else 0.6),
        'sibling': r.random() < 0.5,
        'div_as': 'step',
    }


# ------------------------------------------------------------------ execution

SV2 = [[0.0, 0.0], (1, 2), {'a': 1}, [1, 2, 3], 'ab']


def vals(t, Process):
    if isinstance(t, dict):
        return {k: vals(v, Process) for k, v in t.items()
                if not (isinstance(v, tuple) and len(v) == 2 and isinstance(v[0], Process))}
    return t


def run(spec):
    from vivarium.core.engine import Engine
    from vivarium.core.process import Process, Step
    from vivarium.core.registry import divider_registry
    np, units = _env['np'], _env['units']
    V = Viol()
    contracts.SINK.reset()
    m = spec['mother']
    extra_default = spec['extra_default']

    def schema(extra):
        s = {
            'ident': {'_default': '', '_updater': 'set', '_divider': 'set'},
            'i_set': {'_default': 0, '_divider': 'set'},
            'i_split': {'_default': 0, '_divider': 'split'},
            'np_split': {'_default': np.int64(0), '_divider': 'split'},
            'f_split': {'_default': 0.0, '_divider': 'split'},
            'q_split': {'_default': 0.0 * units.fg, '_divider': 'split'},
            'd_sd': {'_default': {}, '_updater': 'set', '_divider': 'split_dict'},
            'bino': {'_default': 0, '_divider': 'binomial'},
            'z': {'_default': 0, '_divider': 'zero'},
            'z2': {'_default': 1.5, '_updater': 'set', '_divider': 'zero'},
            'sv': {'_default': 0, '_divider': {'divider': 'set_value', 'config': {'value': 77}}},
            'sv2': {'_default': 'unset', '_updater': 'set',
                    '_divider': {'divider': 'set_value', 'config': {'value': copy.deepcopy(SV2[m.get('sv2', 0)])}}},
            'nodiv': {'_default': 0},
            'fnv': {'_default': 0, '_divider': {'divider': fn_divider, 'topology': {'x': ('..', 'z')}}},
            'grp': {'_divider': branch_divider, 'a': {'_default': 0}, 'b': {'_default': 0}},
            # dictionary-form dividers on branches: a registered name, and a function with config
            'pool': {'_divider': {'divider': 'split_dict'}, 'q1': {'_default': 0}, 'q2': {'_default': 0}, 'q3': {'_default': 0}},
            'grp2': {'_divider': {'divider': branch_divider_cfg, 'config': {'w': 3}}, 'a': {'_default': 0}, 'b': {'_default': 0}},
            'lst': {'_default': [], '_updater': 'vmon_inplace_extend'},
            'arr': {'_default': np.array([0, 0]), '_updater': 'vmon_inplace_add'},
            'dv': {'_default': {}, '_updater': 'dict_value'},
        }
        if extra:
            s['extra'] = {'_default': extra_default}
        return s

    up = ('..',) * 2

    class Cell(Process):
        def ports_schema(self):
            return {'S': schema(self.parameters.get('extra', False)),
                    'ctl': {'active': {'_default': '', '_updater': 'set'}}}

        def next_update(self, timestep, states):
            ident = states['S']['ident']
            if states['ctl']['active'] != ident or not ident:
                return {}
            k = len(states['S']['dv'])
            return {'S': {'dv': {'_add': [{'key': '%s_%d' % (ident, k), 'state': {'n': k}}]},
                          'arr': np.array([1, 1]), 'lst': [ident], 'i_split': 1}}

    cell_topology = {'cell': {'S': ('st',), 'ctl': up + tuple(['..'] * spec['depth']) + ('ctl',)}}

    class Div(Step if spec.get('div_as', 'step') == 'step' else Process):
        def ports_schema(self):
            # env_n / env_tag are declared (with their dividers) only here, by a process outside the
            # dividing compartment, through the glob sub-schema
            return {'agents': {'*': {'st': {'ident': {'_default': '', '_updater': 'set'},
                                            'env_n': {'_default': 0, '_divider': 'split'},
                                            'env_tag': {'_default': 'none', '_updater': 'set', '_divider': 'set'}}}},
                    'cmd': {'_default': '', '_updater': 'set'}}

        def next_update(self, timestep, states):
            mother = states['cmd']
            if not mother or mother not in states['agents']:
                return {}
            daughters = []
            for j, key in enumerate((mother + '0', mother + '1')):
                init = {'st': dict({'ident': key}, **(spec['d1_init'] if j == 0 else spec['d2_init']))}
                d = {'key': key, 'initial_state': init}
                if spec['explicit_processes']:
                    d['processes'] = {'cell': Cell({'timestep': 1.0, 'extra': True})}
                    d['topology'] = copy.deepcopy(cell_topology)
                daughters.append(d)
            return {'agents': {'_divide': {'mother': mother, 'daughters': daughters}}, 'cmd': ''}

    apath = tuple(['env', 'sub'][:spec['depth']]) + ('agents',)

    def nestp(path, leaf):
        for k in reversed(path):
            leaf = {k: leaf}
        return leaf

    mother_state = dict(m)
    mother_state['np_split'] = np.int64(m['np_split'])
    mother_state['q_split'] = m['q_split'] * units.fg
    mother_state['arr'] = np.array(m['arr'])
    mother_state['ident'] = 'm'
    if 'z2' in m:
        mother_state['z2'] = {'inf': float('inf'), '-inf': float('-inf'), 'nan': float('nan')}.get(m['z2'], m['z2']) \
            if isinstance(m['z2'], str) else copy.deepcopy(m['z2'])
    else:
        mother_state['z2'] = 5
    agents = {'m': {'st': copy.deepcopy(mother_state)}}
    procs_agents = {'m': {'cell': Cell({'timestep': 1.0})}}
    topo_agents = {'m': copy.deepcopy(cell_topology)}
    if spec['sibling']:
        sib = copy.deepcopy(mother_state)
        sib['ident'] = 's'
        agents['s'] = {'st': sib}
        procs_agents['s'] = {'cell': Cell({'timestep': 1.0})}
        topo_agents['s'] = copy.deepcopy(cell_topology)
    processes = nestp(apath, procs_agents)
    steps = {}
    if spec.get('div_as', 'step') == 'step':
        steps['div'] = Div({})
    else:
        processes['div'] = Div({'timestep': 1.0})
    topology = nestp(apath, topo_agents)
    topology['div'] = {'agents': apath, 'cmd': ('cmd',)}
    init = nestp(apath, agents)
    init['cmd'] = ''
    init['ctl'] = {'active': ''}
    init['outside'] = {'keep': [1, 2, 3]}

    stats = {'inplace_updates': 0, 'divisions': 0}
    try:
        e = Engine(processes=processes, steps=steps, topology=topology, initial_state=init, display_info=False,
                   emitter='null')

        def tree():
            return vals(e.state.get_value(), Process)

        def sub(t, path):
            for k in path:
                t = t[k]
            return t

        def set_var(path, value):
            node = {path[-1]: {'_value': value, '_updater': 'set'}}
            e.state.apply_update(nestp(path[:-1], node))

        def divide(mother, d_init):
            before = copy.deepcopy(tree())
            mstore = e.state.get_path(apath + (mother,))
            mother_proc = mstore.get_path(('cell',)).value
            set_var(('cmd',), mother)
            e.update(1.0)
            after = tree()
            ag = sub(after, apath)
            d1k, d2k = mother + '0', mother + '1'
            V.check('mother_removed', mother not in ag and d1k in ag and d2k in ag,
                    ('mother still present / daughters missing', sorted(ag)))
            if mother in ag or d1k not in ag or d2k not in ag:
                return None
            stats['divisions'] += 1
            mb = sub(before, apath)[mother]['st']
            d1, d2 = ag[d1k]['st'], ag[d2k]['st']
            inits = {d1k: d_init[0], d2k: d_init[1]}
            relations(V, mb, d1, d2, inits[d1k], inits[d2k], spec, mother)
            # outside: everything except the divided compartment and cmd
            bo = copy.deepcopy(before)
            ao = copy.deepcopy(after)
            sub(bo, apath).pop(mother)
            sub(ao, apath).pop(d1k)
            sub(ao, apath).pop(d2k)
            bo.pop('cmd')
            ao.pop('cmd')
            V.check('outside_unchanged', _same(bo, ao), lambda: ('state outside the divided compartment changed',
                                                                  repr(bo)[:300], repr(ao)[:300]))
            p1 = e.state.get_path(apath + (d1k, 'cell')).value
            p2 = e.state.get_path(apath + (d2k, 'cell')).value
            V.check('separate_instances', p1 is not p2 and p1 is not mother_proc and p2 is not mother_proc,
                    'daughters share a process instance (or keep the mother\'s)')
            return d1k, d2k

        def independence(a, b):
            """drive daughter a alone; b and everything else must not move."""
            set_var(('ctl', 'active'), a)
            snap = copy.deepcopy(tree())
            e.update(2.0)
            now = tree()
            sa, na = copy.deepcopy(snap), copy.deepcopy(now)
            for t in (sa, na):
                sub(t, apath).pop(a)
            V.check('independence', _same(sa, na),
                    lambda: ('updating daughter %s changed state elsewhere' % a, diff(sa, na)))
            sta, stb = sub(snap, apath)[a]['st'], sub(now, apath)[a]['st']
            ok = len(stb['dv']) == len(sta['dv']) + 2 and list(stb['arr']) == [x + 2 for x in sta['arr']] and \
                stb['lst'] == sta['lst'] + [a, a] and stb['i_split'] == sta['i_split'] + 2
            V.check('daughter_updates_applied', ok, lambda: ('daughter %s did not receive exactly its own updates' % a,
                                                              repr(sta)[:300], repr(stb)[:300]))
            stats['inplace_updates'] += 2
            set_var(('ctl', 'active'), '')

        e.update(1.0)
        res = divide('m', (spec['d1_init'], spec['d2_init']))
        if res:
            d1k, d2k = res
            independence(d1k, d2k)
            independence(d2k, d1k)
            if spec['gen2']:
                res2 = divide(d1k, (spec['d1_init'], spec['d2_init']))
                if res2:
                    independence(res2[1], res2[0])
                    independence(d2k, res2[0])
    except Exception as ex:
        import traceback
        V.check('no_exception', False, ('engine raised', type(ex).__name__, str(ex)[:300], traceback.format_exc()[-600:]))

    # direct value grid on the registered (contracted) dividers
    for x in INT_GRID:
        divider_registry.access('split')(x)
        divider_registry.access('split')(np.int64(min(x, 2 ** 62)))
    for x in FLOAT_GRID:
        divider_registry.access('split')(x)
        divider_registry.access('split')(x * units.fg)
    for n in (0, 1, 5, 9):
        divider_registry.access('split_dict')({'k%d' % j: j for j in range(n)})
    divider_registry.access('split_dict')(None)
    for n in (0, 1, 5, 100, 10 ** 6):
        divider_registry.access('binomial')(n)
    divider_registry.access('zero')(5)
    divider_registry.access('set')([1, 2])
    divider_registry.access('set_value')(3, {'value': 9})

    viol = list(V) + contracts.SINK.viol
    evals = dict(V.evals)
    for k, n in contracts.SINK.evals.items():
        evals[k] = evals.get(k, 0) + n
    return {'viol': viol, 'evals': evals, 'stats': stats,
            'nontrivial': stats['divisions'] >= 1 and stats['inplace_updates'] >= 2,
            'classes': ['depth_%d' % spec['depth'], 'explicit_processes' if spec['explicit_processes'] else 'copied_processes',
                        'gen2' if spec['gen2'] else 'gen1'],
            'summary': dict(stats)}


def diff(a, b, p=()):
    if isinstance(a, dict) and isinstance(b, dict):
        out = []
        for k in set(a) | set(b):
            if k not in a or k not in b:
                out.append(('/'.join(map(str, p + (k,))), 'only one side'))
            else:
                out += diff(a[k], b[k], p + (k,))
        return out[:6]
    return [] if _same(a, b) else [('/'.join(map(str, p)), repr(a)[:80], repr(b)[:80])]


def relations(V, mb, d1, d2, init1, init2, spec, mother):
    """Per-divider relations between the mother's state and the daughters'."""
    units = _env['units']

    def chk(name, var, ok, extra=None):
        V.check(name, ok, lambda: ('%s: mother %r -> daughters %r, %r %s' % (var, mb.get(var), d1.get(var), d2.get(var), extra or ''))[:500])

    def free(var):
        return var not in init1 and var not in init2

    for var, init, d in [(v, init1, d1) for v in init1] + [(v, init2, d2) for v in init2]:
        V.check('explicit_initial_state', _same(d.get(var), init[var]),
                lambda: ('explicit daughter initial state for %s not honoured: %r' % (var, d.get(var))))
    V.check('explicit_initial_state', d1['ident'] == mother + '0' and d2['ident'] == mother + '1', 'ident')
    if free('i_set'):
        chk('relation.set', 'i_set', d1['i_set'] == mb['i_set'] == d2['i_set'])
    if free('nodiv'):
        chk('relation.set', 'nodiv', d1['nodiv'] == mb['nodiv'] == d2['nodiv'])
    for var in ('lst', 'arr', 'dv'):
        if free(var):
            chk('relation.set', var, _same(d1[var], mb[var]) and _same(d2[var], mb[var]))
    for var in ('i_split', 'np_split'):
        if free(var):
            a, b, mm = int(d1[var]), int(d2[var]), int(mb[var])
            chk('relation.split_int', var, a + b == mm and abs(a - b) <= 1)
    if free('f_split'):
        chk('relation.split_float', 'f_split', d1['f_split'] == d2['f_split'] == mb['f_split'] / 2)
    chk('relation.split_float', 'q_split', d1['q_split'] == d2['q_split'] == mb['q_split'] / 2 and
        d1['q_split'].units == mb['q_split'].units)
    a, b = d1['d_sd'], d2['d_sd']
    if free('d_sd'):
        chk('relation.split_dict', 'd_sd', not (set(a) & set(b)) and dict(a, **b) == mb['d_sd'])
    if free('bino'):
        chk('relation.binomial', 'bino', d1['bino'] + d2['bino'] == mb['bino'] and d1['bino'] >= 0 and d2['bino'] >= 0)
    if free('z'):
        chk('relation.zero', 'z', d1['z'] == 0 and d2['z'] == 0)
    chk('relation.zero', 'z2', _same(d1.get('z2'), 0) and _same(d2.get('z2'), 0))
    if free('sv'):
        chk('relation.set_value', 'sv', d1['sv'] == 77 and d2['sv'] == 77)
    if 'sv2' in mb:
        want = SV2[spec['mother'].get('sv2', 0)]
        chk('relation.set_value', 'sv2', _same(d1.get('sv2'), want) and _same(d2.get('sv2'), want))
    a, b, mm = int(d1['env_n']), int(d2['env_n']), int(mb['env_n'])
    chk('relation.outside_declared', 'env_n', a + b == mm and abs(a - b) <= 1)
    chk('relation.outside_declared', 'env_tag', d1['env_tag'] == 'mother' == d2['env_tag'])
    chk('relation.custom_topology', 'fnv', d1['fnv'] == mb['fnv'] + mb['z'] and d2['fnv'] == mb['fnv'] - mb['z'])
    chk('relation.branch_divider', 'grp', d1['grp'] == {'a': mb['grp']['a'], 'b': 0} and
        d2['grp'] == {'a': 0, 'b': mb['grp']['b']})
    pm = mb['pool']
    chk('relation.branch_dict_form', 'pool', all(sorted((d1['pool'][k], d2['pool'][k])) == [0, pm[k]] for k in pm))
    chk('relation.branch_dict_form', 'grp2', d1['grp2'] == {'a': mb['grp2']['a'] * 3, 'b': mb['grp2']['b']} and
        d2['grp2'] == {'a': mb['grp2']['a'], 'b': mb['grp2']['b'] * 3})
    if spec['explicit_processes']:
        V.check('defaults_complete', d1.get('extra') == spec['extra_default'] and d2.get('extra') == spec['extra_default'],
                lambda: ('variable declared only by the daughter processes lacks its default', d1.get('extra'), d2.get('extra')))
    else:
        V.check('defaults_complete', set(d1) == set(mb) and set(d2) == set(mb),
                lambda: ('daughter variables differ from the mother\'s', sorted(set(mb) ^ set(d1)), sorted(set(mb) ^ set(d2))))


MANIFEST = {
    'text': 'Exploration: generated mother compartments covering every registered divider, custom dividers with topology/config and branch-level dividers are divided by the real engine (depth 0-2, explicit or copied daughter processes, explicit initial state, second generation); icontract postconditions judge every divider call; before/after snapshots are judged by the per-divider relations; each daughter is then driven alone through in-place updaters while a full-tree diff watches the other daughter and everything outside.',
    'note': 'Random divider outcomes judged relationally (sum / partition), non-negative values, dyadic floats; trusts the relations in checks/c11.py.',
    'technique': 'runtime monitoring: icontract postconditions on divider calls + before/after hierarchy snapshots + independence monitor (full-tree diff while one daughter is driven)',
}
