"""C17 - hierarchy paths obey a consistent path algebra.

Monitor shape: reference-model oracles (a pure-dict file-system model) evaluated
on every call of the real helpers over generated trees x paths; Store-level
laws are checked by node identity."""
import copy

from vmon.util import T, leaves, dict_nodes, through_leaf, get, norm_path, Viol

ID = 'C17'
LEVEL = 'exploration'
RULE = ('random trees over keys {a,b,c} (depth <=3, thorough <=4) and paths over {a,b,c,x,..} '
        '(length <=4, thorough <=6) incl. empty paths and paths into missing keys; the same shapes '
        'built as Store trees, half of them re-checked after a subtree was moved with the real Store.move; non-trivial = tree with >=3 nodes and a dictionary path of length >=2 '
        'or a relative Store path containing ".."; distinct = distinct case spec')
PLAN = {'quick': {'n': 60000, 'min_cases': 2000}, 'thorough': {'n': 400000, 'min_cases': 20000}}
REQUIRED_ORACLES = ['after_move', 'assoc_get', 'delete_in', 'update_in', 'enumerations', 'walk_vs_lexical',
                    'path_to', 'path_for']
ANCHORS = ['vivarium.library.topology:normalize_path', 'vivarium.library.topology:get_in',
           'vivarium.library.topology:delete_in', 'vivarium.library.topology:assoc_path',
           'vivarium.library.topology:update_in', 'vivarium.library.topology:paths_to_dict',
           'vivarium.library.topology:dict_to_paths', 'vivarium.core.store:Store.get_path',
           'vivarium.core.store:Store.path_for', 'vivarium.core.store:Store.path_to',
           'vivarium.core.store:Store.top', 'vivarium.core.store:Store.move', 'vivarium.core.store:Store.add_node', 'vivarium.core.store:hierarchy_depth',
           'vivarium.core.process:assoc_in']
ASSUMPTIONS = ['dictionary helpers are not asserted for paths that run through a leaf value',
               'Store laws are checked on trees of plain variables (no processes)']


def rtree(r, maxd, depth=0):
    d = {}
    for k in r.sample(['a', 'b', 'c'], r.randint(1, 3)):
        # (a leaf may hold None: a stored None is a value, not an absent entry)
        d[k] = rtree(r, maxd, depth + 1) if depth < maxd - 1 and r.random() < 0.5 else r.choice([None] + list(range(10)))
    return d


def gen(r, tier, i):
    maxd = 3 if tier == 'quick' else r.choice([3, 4])
    maxl = 4 if tier == 'quick' else 6
    d = rtree(r, maxd)
    base = r.choice(dict_nodes(d))
    ext = [r.choice(['a', 'b', 'c', 'x']) for _ in range(r.randint(0, 3))]
    p = list(base) + ext
    if r.random() < 0.05:
        p = []
    nodes = [()] + list(leaves(d)) + dict_nodes(d)
    a = r.choice(nodes)
    b = r.choice(nodes)
    rel = [r.choice(['a', 'b', 'c', '..', '..']) for _ in range(r.randint(0, maxl))]
    branches = [q for q in dict_nodes(d)]
    move = None
    if r.random() < 0.5 and len(nodes) > 3:
        move = [list(r.choice([q for q in nodes if q])), list(r.choice(branches))]
    return {'tree': d, 'path': p, 'a': list(a), 'b': list(b), 'rel': rel, 'v': r.randint(100, 999), 'move': move, 'attach': r.random() < 0.35}


def model_delete(d, p):
    exp = copy.deepcopy(d)
    if not p:
        return exp
    n = exp
    for k in p[:-1]:
        if isinstance(n, dict) and k in n:
            n = n[k]
        else:
            return exp
    if isinstance(n, dict):
        n.pop(p[-1], None)
    return exp


def run(spec):
    from vivarium.library.topology import (
        get_in, assoc_path, delete_in, update_in, paths_to_dict, dict_to_paths, normalize_path)
    from vivarium.core.store import Store, hierarchy_depth
    from vivarium.core.process import assoc_in
    V = Viol()
    d = spec['tree']
    p = T(spec['path'])
    # the value written: a scalar-like marker, or (a third of the cases) a dictionary - which replaces whatever
    # dictionary already sits at the path
    v = {'vk': spec['v']} if spec['v'] % 3 == 0 else ('V', spec['v'])
    lv = leaves(d)
    stats = {}

    dict_ok = not through_leaf(d, p) if p else True
    if p and dict_ok:
        # assoc_path / get_in
        d1 = copy.deepcopy(d)
        try:
            res = assoc_path(d1, p, v)
            V.check('assoc_get', get_in(res, p) == v and res is d1, ('get_in(assoc_path)', d, p))
            frame = all(get_in(res, q) == x for q, x in lv.items()
                        if q[:len(p)] != p and p[:len(q)] != q)
            V.check('assoc_frame', frame, ('leaf outside path changed', d, p, res))
            d2 = copy.deepcopy(d)
            res2 = assoc_in(d2, p, v)
            V.check('assoc_in_agrees', res2 == res, ('assoc_in != assoc_path', d, p, res2, res))
        except Exception as e:  # the statement: helpers work for missing keys
            V.check('assoc_get', False, ('exception', d, p, repr(e)))
        # delete_in
        d1 = copy.deepcopy(d)
        try:
            delete_in(d1, p)
            V.check('delete_in', d1 == model_delete(d, p), ('delete_in', d, p, d1))
        except Exception as e:
            V.check('delete_in', False, ('exception', d, p, repr(e)))
        # update_in
        d1 = copy.deepcopy(d)
        try:
            old = get(d, p, {})
            res = update_in(d1, p, lambda cur: ('F', copy.deepcopy(cur)))
            ok = get_in(res, p) == ('F', old)
            frame = all(get_in(res, q) == x for q, x in lv.items()
                        if q[:len(p)] != p and p[:len(q)] != q)
            V.check('update_in', ok and frame, ('update_in', d, p, res))
        except Exception as e:
            V.check('update_in', False, ('exception', d, p, repr(e)))
        # get_in on the untouched tree
        V.check('get_in', get_in(d, p, 'DFLT') == get(d, p, 'DFLT'), ('get_in', d, p))
    elif not p:
        d1 = copy.deepcopy(d)
        V.check('empty_path', get_in(d1, ()) is d1 and normalize_path(()) == (), 'get_in/normalize ()')
        delete_in(d1, ())
        V.check('empty_path', d1 == d, 'delete_in () changed the tree')
        V.check('empty_path', update_in(copy.deepcopy(d), (), lambda cur: ('F', cur)) == ('F', d), 'update_in ()')

    # enumerations
    paths = dict_to_paths((), d)
    V.check('enumerations', dict(paths) == lv and len(paths) == len(lv), ('dict_to_paths', d, paths))
    V.check('enumerations', hierarchy_depth(d) == lv, ('hierarchy_depth', d))
    V.check('enumerations', paths_to_dict(paths) == d, ('paths_to_dict inverse', d))
    root = ('r', 's')
    V.check('enumerations', dict(dict_to_paths(root, d)) == {root + q: x for q, x in lv.items()},
            ('dict_to_paths root', d))

    # lexical normal form against the model
    rel = T(spec['rel'])
    a = T(spec['a'])
    b = T(spec['b'])
    V.check('normalize', normalize_path(a + rel) == norm_path(a + rel), ('normalize_path', a + rel))

    # Store navigation
    def cfg(t):
        return {k: (cfg(x) if isinstance(x, dict) else {'_default': x}) for k, x in t.items()}
    s = Store(cfg(d))
    s.apply_defaults()
    nodes = {(): s}

    def coll(st, q):
        for k, c in st.inner.items():
            nodes[q + (k,)] = c
            coll(c, q + (k,))
    coll(s, ())
    V.check('store_shape', set(nodes) == set(dict_nodes(d)) | set(lv), ('store nodes', d, sorted(nodes)))
    if a in nodes and b in nodes:
        na, nb = nodes[a], nodes[b]
        V.check('path_for', na.path_for() == a and s.get_path(na.path_for()) is na and na.top() is s,
                ('path_for', d, a, na.path_for()))
        try:
            pt = na.path_to(nb)
            V.check('path_to', na.get_path(pt) is nb, ('path_to', d, a, b, pt))
        except Exception as e:
            V.check('path_to', False, ('exception', d, a, b, repr(e)))
        try:
            w = na.get_path(rel)
        except Exception:
            w = None
        nf = normalize_path(a + rel)
        try:
            lx = s.get_path(nf)
        except Exception:
            lx = None
        if w is not None:
            stats['walks_succeeded'] = 1
            V.check('walk_vs_lexical', lx is w,
                    ('walk and lexical normal form reach different nodes', d, a, rel, nf,
                     w.path_for(), lx.path_for() if lx is not None else 'RAISED'))
        else:
            # the walk fails; when it fails because the path climbs above the root, its normal form still starts
            # with '..' and does not resolve from the root either
            escapes = bool(norm_path(a + rel)) and norm_path(a + rel)[0] == '..'
            V.check('walk_vs_lexical', not (escapes and lx is not None),
                    ('a path that climbs above the root cannot be walked, but its lexical normal form resolves to a node',
                     d, a, rel, nf))
            stats['walks_failed'] = 1
        # model agreement of the lexical resolution
        exists = nf in nodes
        V.check('lexical_model', (lx is not None) == exists and (lx is None or lx is nodes[nf]),
                ('root.get_path(normal form) disagrees with the tree', d, nf))
    # the same laws on a hierarchy that changes: a subtree is moved (real Store.move), then every node is
    # asked again, deepest first (nodes were all asked once before the move)
    mv = spec.get('move')
    if mv and tuple(mv[0]) in nodes and tuple(mv[1]) in nodes:
        import types
        src, dst = tuple(mv[0]), tuple(mv[1])
        ok_move = src and dst[:len(src)] != src and nodes[dst].inner and src[-1] not in nodes[dst].inner \
            and src[:-1] != dst
        if ok_move:
            for q, n in nodes.items():
                n.path_for()
                if a in nodes:
                    n.path_to(nodes[a])
            parent = nodes[src[:-1]]
            fake_process = types.SimpleNamespace(topology={'T': dst}, outer=s)
            try:
                if spec.get('attach') and dst:
                    # re-attach the detached subtree with Store.add_node and a path of several keys, from the root
                    node = parent.inner.pop(src[-1])
                    s.add_node(dst + (src[-1],), node)
                else:
                    parent.move({'source': (src[-1],), 'target': ('T',)}, fake_process)
                moved = True
            except Exception as e:
                moved = False
                V.check('after_move', False, ('Store.move raised', d, src, dst, repr(e)[:200]))
            if moved:
                stats['moves'] = 1
                fresh = {(): s}

                def coll2(st, q):
                    for k, c in st.inner.items():
                        fresh[q + (k,)] = c
                        coll2(c, q + (k,))
                coll2(s, ())
                order = sorted(fresh, key=lambda q: -len(q))
                for q in order:
                    n = fresh[q]
                    got = n.path_for()
                    V.check('after_move', got == q and s.get_path(got) is n,
                            lambda: ('after a move, path_for() of the node at %r is %r' % (q, got), d, src, dst))
                tgt = fresh[order[-1]] if order else s
                for q in order[:6]:
                    n = fresh[q]
                    for other in (s, fresh[order[0]]):
                        try:
                            pt = n.path_to(other)
                            V.check('after_move', n.get_path(pt) is other,
                                    lambda: ('after a move, path_to() does not reach the target', q, pt, d, src, dst))
                        except Exception as e:
                            V.check('after_move', False, ('after a move, following path_to() raised', q, repr(e)[:150]))
    nontrivial = (len(dict_nodes(d)) + len(lv) >= 4) and (len(p) >= 2 or '..' in rel)
    return {'viol': list(V), 'evals': V.evals, 'stats': stats, 'nontrivial': nontrivial,
            'classes': ['path_len_%d' % len(p), 'rel_dotdot' if '..' in rel else 'rel_plain',
                        'missing_key' if get(d, p, None) is None and p else 'existing'],
            'summary': {'oracles': sorted(V.evals)}}

MANIFEST = {
    'text': 'Exploration: tens of thousands of generated tree x path cases per run; every call of the real path helpers and Store navigation methods is judged by a pure-dict file-system model (value oracles) and by node identity (Store oracles). Held = no law failed on the cases explored.',
    'note': 'Trusts the small reference model in vmon/util.py and checks/c17.py; dictionary helpers are not asserted for paths running through a leaf value; Store laws on trees of plain variables.',
    'technique': 'runtime monitoring: reference-model oracles on every helper call over generated trees and paths',
}
