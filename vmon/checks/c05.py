"""C05 - steps run once per phase, after process updates, in dependency order.

Monitor shape: every step returns a unique token and records the ledger it was
shown; the append-only ledger records application; the recording emitter
delimits phases. Offline checker per phase: exactly-once, timestep 0, ancestors
visible / descendants not, equal views inside a topological generation,
derivers first in declaration order, this batch's process tokens visible."""
import itertools

from vmon.util import Viol

ID = 'C05'
LEVEL = 'exploration'
RULE = ('flows that are random DAGs over 1-8 steps (quick cases 0..1091: every DAG on <=4 nodes compatible with a '
        'fixed order, under a random relabelling/declaration order), 0-3 legacy derivers declared in steps or '
        '(legacy style) in processes, steps nested in compartments of depth 0-3 with dependencies on siblings and '
        'on steps in deeper compartments, 1-3 timed processes with different timesteps so that batches differ; '
        '2-4 run_for/update calls; non-trivial = >=3 steps with >=1 dependency edge (or a deriver) and >=3 phases; '
        'distinct = distinct case spec')
PLAN = {'quick': {'n': 8000, 'min_cases': 600}, 'thorough': {'n': 100000, 'min_cases': 10000}}
REQUIRED_ORACLES = ['phase_per_batch', 'dependency_effects_visible', 'runtime_steps_run', 'once_per_phase', 'timestep_zero', 'sees_ancestors', 'not_descendants',
                    'generation_same_view', 'derivers_first_in_order', 'sees_batch_process_updates']
ANCHORS = ['vivarium.core.engine:_StepGraph.get_execution_layers', 'vivarium.core.engine:_StepGraph.add',
           'vivarium.core.engine:_StepGraph.add_sequential', 'vivarium.core.engine:Engine.run_steps',
           'vivarium.core.engine:Engine._send_updates', 'vivarium.core.engine:Engine._add_step_path',
           'vivarium.core.engine:Engine._validate_steps_and_flow', 'vivarium.core.engine:Engine._find_step_paths']
ASSUMPTIONS = ['the relative order of derivers declared in different dictionaries (processes vs steps) is not asserted',
               'dependency paths do not contain ".." (rejected at construction)',
               'order inside a topological generation is not asserted, only equal views']


def small_dags():
    out = []
    for n in range(1, 5):
        pairs = [(i, j) for i in range(n) for j in range(i)]
        for mask in range(1 << len(pairs)):
            out.append({str(i): [j for k, (ii, j) in enumerate(pairs) if ii == i and mask >> k & 1] for i in range(n)})
    return out


_SMALL = small_dags()        # 1 + 2 + 8 + 64 = 75 DAGs
_ENUM = [(d, nder) for d in _SMALL for nder in (0, 1, 2)]


def run_parallel_duck(spec):
    """A step by configuration (is_step() override, listed among the processes) that runs in a worker: seen
    through the tokens it appends to the ledger (applied in the parent) - one per phase, timestep 0, the ledger
    it was shown includes every process update of its batch."""
    from vmon import sched
    from vmon.sensors import Mon, drive
    V = Viol()
    m = Mon()
    Mon.cur = m
    e = None
    try:
        e = sched.build(spec['sched'])
        ok, exc = drive(e, m, spec['sched']['calls'], lambda iv: 2000)
        V.check('no_exception', ok, lambda: ('run raised', repr(exc)[:300]))
    except Exception as ex:
        V.check('no_exception', False, ('engine raised', type(ex).__name__, str(ex)[:200]))
    finally:
        Mon.cur = None
        if e is not None:
            try:
                e.end()
            except Exception:
                pass
    applied = 0
    in_phase = []
    phases = 0
    for ev in m.events:
        if ev[0] == 'apply':
            if ev[1][0] == 'zduck':
                in_phase.append((ev[1], applied))
            applied += 1
        elif ev[0] == 'emit' and ev[1] == 'history':
            phases += 1
            V.check('once_per_phase', len(in_phase) == 1,
                    lambda: ('the parallel step by configuration ran %d times in the phase before the row at t=%r' % (len(in_phase), ev[2]),))
            for tok, before in in_phase:
                V.check('timestep_zero', tok[2] == 0, lambda: ('step timestep', tok[2]))
                V.check('sees_batch_process_updates', tok[3] == before,
                        lambda: ('the step was shown a ledger of %d tokens, %d had been applied when its phase began' % (tok[3], before),))
            in_phase = []
    return {'viol': list(V), 'evals': V.evals, 'nontrivial': phases >= 3, 'classes': ['parallel_duck'], 'summary': {'phases': phases}}


def run_step_delete(spec):
    """One step of a dependency graph is deleted by a process while other steps depend on it: from the next
    phase on, every step that is still in the hierarchy runs exactly once per phase, after the steps it still
    depends on; the deleted step never runs again."""
    from vivarium.core.engine import Engine
    from vivarium.core.process import Process, Step
    V = Viol()
    log = []
    names = spec['names']
    deps = {k: list(v) for k, v in spec['deps'].items()}

    class S(Step):
        def ports_schema(self):
            return {'x': {self.parameters['name']: {'_default': 0, '_updater': 'accumulate'}}}

        def next_update(self, timestep, states):
            log.append(self.parameters['name'])
            return {'x': {self.parameters['name']: 1}}

    class Killer(Process):
        def ports_schema(self):
            return {'x': {'k': {'_default': 0, '_updater': 'accumulate'}}, 'top': {}}

        def next_update(self, timestep, states):
            log.append('tick')
            if states['x']['k'] == spec['at']:
                return {'x': {'k': 1}, 'top': {'_delete': [(spec['victim'],)]}}
            return {'x': {'k': 1}}
    nontrivial = False
    try:
        e = Engine(processes={'killer': Killer({'timestep': 1.0})}, steps={n: S({'name': n}) for n in names},
                   flow={n: [(d,) for d in deps[n]] for n in names},
                   topology=dict({'killer': {'x': ('x',), 'top': ()}}, **{n: {'x': ('x',)} for n in names}),
                   emitter='null', display_info=False, progress_bar=False)
        del log[:]
        for _ in range(spec['at'] + 4):
            start = len(log)
            e.update(1.0)
            phase = [n for n in log[start:] if n != 'tick']
            present = sorted(n for n in names if n in e.state.inner)
            V.check('steps_once_per_phase', sorted(phase) == present,
                    lambda: ('steps %r with flow %r, step %r deleted by a process at its invocation %d: after the batch at t=%r the hierarchy '
                             'holds the steps %r but the step phase invoked %r' % (names, deps, spec['victim'], spec['at'] + 1, e.global_time, present, phase)))
            order_ok = all(phase.index(d) < phase.index(n) for n in phase for d in deps[n] if d in phase)
            V.check('dependency_order', order_ok, lambda: ('step phase order %r contradicts the flow %r' % (phase, deps)))
            if spec['victim'] not in present and any(spec['victim'] in deps[n] for n in present):
                nontrivial = True
        V.check('no_exception', True)
    except Exception as ex:
        import traceback
        V.check('no_exception', False, ('engine raised', type(ex).__name__, str(ex)[:200], traceback.format_exc()[-400:]))
    return {'viol': list(V), 'evals': V.evals, 'nontrivial': nontrivial, 'classes': ['step_delete'], 'summary': {}}


def gen(r, tier, i):
    if i % 40 == 7:
        shape = r.choice(['chain', 'diamond', 'fan', 'two_chains'])
        deps = {'chain': {'a': [], 'b': ['a'], 'c': ['b']},
                'diamond': {'a': [], 'b': ['a'], 'c': ['a'], 'd': ['b', 'c']},
                'fan': {'a': [], 'b': ['a'], 'c': ['a'], 'd': []},
                'two_chains': {'a': [], 'b': ['a'], 'c': [], 'd': ['c']}}[shape]
        return {'family': 'step_delete', 'names': sorted(deps), 'deps': deps, 'victim': r.choice(sorted(deps)), 'at': r.randint(0, 2)}
    if i % 300 == 5:
        from vmon import sched
        procs = [{'pid': pid, 'ts': {'kind': 'const', 'v': r.choice([0.5, 1.0, 1.5])}} for pid in range(r.randint(1, 2))]
        return {'family': 'parallel_duck',
                'sched': {'procs': procs, 'calls': [[r.choice([1.0, 2.0, 2.5]), r.choice([True, False, 'update'])] for _ in range(r.randint(1, 2))] + [[1.0, 'update']],
                          't0': 0, 'duck_step': True, 'parallel_steps': True, 'nsteps': r.randint(0, 1)}}
    if i >= len(_ENUM) * 4 and r.random() < 0.06:
        # steps (also nested ones) of compartments that are generated, divided by copying and moved: C10's
        # structural workload, judged here on the step clauses only
        from vmon.checks import c10
        return {'family': 'structural', 'c10': c10.gen(r, tier, i)}
    if i < len(_ENUM) * 4:
        deps, nder = _ENUM[i % len(_ENUM)]
        n = len(deps)
        comp = {str(k): [] for k in range(n)}          # flat
    else:
        n = r.randint(1, 8)
        # compartments: each step lives at a path of depth 0-3; step i may depend on j<i in the same
        # compartment or in a compartment below its own
        comps = [[]]
        for _ in range(r.randint(0, 3)):
            base = r.choice(comps)
            if len(base) < 3:
                comps.append(base + ['c%d' % len(comps)])
        comp = {str(k): r.choice(comps) for k in range(n)}
        deps = {}
        for k in range(n):
            cand = [j for j in range(k) if comp[str(j)][:len(comp[str(k)])] == comp[str(k)]]
            deps[str(k)] = [j for j in cand if r.random() < 0.4]
        nder = r.choice([0, 0, 1, 2, 3])
    order = list(range(n))
    r.shuffle(order)
    gen = None
    if i >= len(_ENUM) * 4 and r.random() < 0.35:
        # a compartment with 1-2 further steps (legacy derivers only, or flow steps) is generated at run time
        gen = {'at': r.choice([0.0, 1.0, 2.0]), 'n': r.randint(1, 2), 'flow': r.choice(['none', 'none', 'chain']),
               # a flow step without dependencies deletes the generated compartment again in a later step phase
               'kill_after': r.choice([None, None, 1.0, 2.0])}
        # ... and later the same compartment (same key, same step names) is generated a second time
        gen['regen'] = gen['kill_after'] is not None and r.random() < 0.6
    # legacy style: some flow steps are listed under processes (their flow entries stay in the flow)
    legacy = [k for k in range(n) if i >= len(_ENUM) * 4 and r.random() < 0.2]
    return {'gen': gen, 'legacy': legacy, 'tuple_flow': i >= len(_ENUM) * 4 and r.random() < 0.2, 'deps': deps, 'comp': comp, 'order': order, 'nder': nder,
            'der_in': [r.choice(['steps', 'processes']) for _ in range(nder)],
            'procs': [r.choice([0.5, 1.0, 1.5, 2.0]) for _ in range(r.randint(1, 3))],
            'calls': [[r.choice([1.0, 2.0, 2.5, 3.0]), r.choice([True, False, 'update'])] for _ in range(r.randint(1, 3))] + [[1.0, 'update']]}


def run(spec):
    if spec.get('family') == 'parallel_duck':
        return run_parallel_duck(spec)
    if spec.get('family') == 'step_delete':
        return run_step_delete(spec)
    if spec.get('family') == 'structural':
        from vmon.checks import c10
        from vmon.util import harvest
        return harvest(c10.run(spec['c10']), ('derived_values', 'derivers_first_in_order', 'steps_once_per_phase',
                                              'step_timestep_zero', 'no_exception'), ['structural'])
    from vmon.sensors import Mon, MonEngine, LedgerStep, LedgerDuck, Ledger, drive
    V = Viol()
    n = len(spec['deps'])
    deps = {int(k): v for k, v in spec['deps'].items()}
    comp = {int(k): tuple(v) for k, v in spec['comp'].items()}
    steps, flow, topo, processes = {}, {}, {}, {}

    def put(tree, path, key, val):
        node = tree
        for c in path:
            node = node.setdefault(c, {})
        node[key] = val
    # derivers first in their dictionaries (declaration order = d0, d1, ...)
    ders = ['d%d' % k for k in range(spec['nder'])]
    for k, name in enumerate(ders):
        if spec['der_in'][k] == 'steps':
            steps[name] = LedgerStep({'sid': name})
        else:
            # (every second one is a step by configuration: a Process subclass that overrides is_step())
            processes[name] = (LedgerDuck if k % 2 else LedgerStep)({'sid': name})
        topo[name] = {'log': ('log',)}
    for k in spec['order']:
        name = 's%d' % k
        put(processes if k in spec.get('legacy', []) else steps, comp[k], name, LedgerStep({'sid': name}))
        rel = []
        for j in deps[k]:
            rel.append(tuple(comp[j][len(comp[k]):]) + ('s%d' % j,))
        # (the flow entry is a sequence of paths: a list, or - as the documentation allows - a tuple)
        put(flow, comp[k], name, tuple(rel) if spec.get('tuple_flow') else rel)
        put(topo, comp[k], name, {'log': tuple(['..'] * len(comp[k])) + ('log',)})
    gen = spec.get('gen')
    if gen:
        from vivarium.core.process import Process

        class Gen(Process):
            def ports_schema(self):
                return {'cells': {'*': {'x': {'_default': 0}}}, 'clk': {'_default': 0.0},
                        'log': {'_default': [], '_updater': 'v_append'}}

            def next_update(self, timestep, states):
                upd = {'clk': timestep}
                again = gen.get('regen') and not getattr(self, 'again', False) and 'g' not in states['cells'] and \
                    states['clk'] >= gen['at'] + 2.0 + (gen.get('kill_after') or 0)
                if again:
                    self.again = True
                if (states['clk'] == gen['at'] or again) and 'g' not in states['cells']:
                    names = ['g%d' % k for k in range(gen['n'])]
                    gsteps = {nm: LedgerStep({'sid': nm}) for nm in names}
                    gflow = {} if gen['flow'] == 'none' else {nm: ([(names[k - 1],)] if k else []) for k, nm in enumerate(names)}
                    upd['cells'] = {'_generate': [{'key': 'g', 'processes': {}, 'steps': gsteps, 'flow': gflow,
                                                   'topology': {nm: {'log': ('..', '..', 'log')} for nm in names},
                                                   'initial_state': {}}]}
                    upd['log'] = [('gen', 0, timestep, 0)]      # marks the batch that carries the _generate
                return upd
        processes['gen'] = Gen({'timestep': 1.0})
        topo['gen'] = {'cells': ('cells',), 'clk': ('genclk',), 'log': ('log',)}
        if gen.get('kill_after') is not None:
            from vivarium.core.process import Step

            class Kill(Step):
                def ports_schema(self):
                    return {'cells': {'*': {'x': {'_default': 0}}}, 'clk': {'_default': 0.0},
                            'log': {'_default': [], '_updater': 'v_append'}}

                def next_update(self, timestep, states):
                    if 'g' in states['cells'] and states['clk'] >= gen['at'] + 1.0 + gen['kill_after'] and \
                            not getattr(self, 'done', False):
                        self.done = True
                        return {'cells': {'_delete': ['g']}, 'log': [('kill', 0, 0, 0)]}
                    return {}
            steps['kill'] = Kill({})
            flow['kill'] = []
            topo['kill'] = {'cells': ('cells',), 'clk': ('genclk',), 'log': ('log',)}

            class Watch(Step):
                """Depends on the deleting step: it must be shown the hierarchy after that step's update."""
                def ports_schema(self):
                    return {'cells': {'*': {'x': {'_default': 0}}}, 'log': {'_default': [], '_updater': 'v_append'}}

                def next_update(self, timestep, states):
                    return {'log': [('watchsaw' if 'g' in states['cells'] else 'watchclear', 0, 0, 0)]}
            steps['watch'] = Watch({})
            flow['watch'] = [('kill',)]
            topo['watch'] = {'cells': ('cells',), 'log': ('log',)}
    for pid, ts in enumerate(spec['procs']):
        name = 'p%d' % pid
        processes[name] = Ledger({'pid': name, 'ts': {'kind': 'const', 'v': ts}})
        topo[name] = {'log': ('log',), 'own': ('own', name), 'acc': ('acc', name), 'clock': ('clock', name), 'flag': ('flag',)}
    m = Mon()
    Mon.cur = m
    try:
        e = MonEngine(processes=processes, steps=steps, flow=flow, topology=topo, display_info=False,
                      emitter={'type': 'vmon_rec'})
        ok, exc = drive(e, m, spec['calls'], lambda iv: 2000)
    except Exception as ex:
        import traceback
        Mon.cur = None
        V.check('no_exception', False, ('engine raised', type(ex).__name__, str(ex)[:200], traceback.format_exc()[-300:]))
        return {'viol': list(V), 'evals': V.evals, 'nontrivial': False}
    Mon.cur = None
    if not ok:
        V.check('no_exception', False, ('run raised', repr(exc)[:300]))
    # reference: ancestors, generations
    anc = {i: set() for i in range(n)}
    for i in range(n):
        stack = list(deps[i])
        while stack:
            j = stack.pop()
            if j not in anc[i]:
                anc[i].add(j)
                stack += deps[j]
    depth = {}
    for i in range(n):        # deps only on smaller indices
        depth[i] = 1 + max([depth[j] for j in deps[i]], default=-1)
    all_steps = set(ders) | {'s%d' % i for i in range(n)}
    # split the log into phases: [.. events ..] emit(history)
    phases = []
    cur = []
    for ev in m.events:
        if ev[0] == 'emit' and ev[1] == 'history':
            phases.append(cur)
            cur = []
        elif ev[0] in ('invoke', 'apply', 'set'):
            cur.append(ev)
    batches = sum(1 for ev in m.events if ev[0] == 'emit' and ev[1] == 'history')
    nphases = 0
    gen_names = ['g%d' % k for k in range(gen['n'])] if gen else []
    generated = False
    killed = False
    for ph in phases:
        inv = [ev for ev in ph if ev[0] == 'invoke' and ev[1] == 'step']
        names = [ev[2][0] for ev in inv]
        nphases += 1
        if any(ev[0] == 'apply' and ev[1][0] == 'kill' for ev in ph):
            w = [ev[1][0] for ev in ph if ev[0] == 'apply' and ev[1][0] in ('watchsaw', 'watchclear')]
            V.check('dependency_effects_visible', w == ['watchclear'],
                    lambda: ('a step depending on the deleting step was still shown the deleted compartment in that phase', w))
            # the generated compartment is deleted during this phase: its steps may have run or not,
            # every other step still runs exactly once
            killed = True
            generated = False
            names = [nm for nm in names if nm not in gen_names]
            inv = [ev for ev in inv if ev[2][0] not in gen_names]
        elif killed and not any(ev[0] == 'apply' and ev[1][0] == 'gen' for ev in ph):
            V.check('runtime_steps_run', not any(g in names for g in gen_names),
                    lambda: ('steps of a deleted compartment ran again', names))
        if gen and not generated:
            # the batch that applied the generating update (its marker token) is followed by a phase in
            # which the new steps already exist (also when the compartment is generated a second time)
            if any(ev[0] == 'apply' and ev[1][0] == 'gen' for ev in ph) and \
                    not any(ev[0] == 'apply' and ev[1][0] == 'kill' for ev in ph):
                generated = True
                killed = False
        if generated:
            V.check('runtime_steps_run', all(names.count(g) == 1 for g in gen_names),
                    lambda: ('steps generated at run time must run exactly once in every later phase', names, gen_names))
            if gen['flow'] == 'chain' and all(names.count(g) == 1 for g in gen_names):
                idx = [names.index(g) for g in gen_names]
                V.check('runtime_steps_run', idx == sorted(idx), lambda: ('generated flow steps ran out of dependency order', names))
        names = [nm for nm in names if nm not in gen_names]
        inv = [ev for ev in inv if ev[2][0] not in gen_names]
        V.check('once_per_phase', sorted(names) == sorted(all_steps),
                lambda: ('steps run in this phase (each must run exactly once)', names, sorted(all_steps)))
        V.check('timestep_zero', all(ev[2][2] == 0 for ev in inv), lambda: ('step timestep', [ev[2][2] for ev in inv]))
        if sorted(names) != sorted(all_steps):
            continue
        # tokens of this phase, and process tokens applied in this batch before the phase
        first_step = next(i for i, ev in enumerate(ph) if ev[0] == 'invoke' and ev[1] == 'step')
        batch_tokens = {ev[1] for ev in ph[:first_step] if ev[0] == 'apply'}
        this_phase = {ev[2][0]: ev[2] for ev in inv}
        view = {ev[2][0]: set(ev[4]) for ev in inv}
        for name in all_steps:
            V.check('sees_batch_process_updates', batch_tokens <= view[name],
                    lambda: ('step %s does not see a process update of its own batch' % name, sorted(batch_tokens - view[name])[:3]))
        # derivers: first, in declaration order within one dictionary, each seeing its predecessors
        der_steps = [d for k, d in enumerate(ders) if spec['der_in'][k] == 'steps']
        der_procs = [d for k, d in enumerate(ders) if spec['der_in'][k] == 'processes']
        pos = {nm: i for i, nm in enumerate(names)}
        if ders:
            last_der = max(pos[d] for d in ders)
            first_flow = min([pos['s%d' % i] for i in range(n)], default=10 ** 9)
            ok_first = last_der < first_flow
            ok_order = all(pos[a] < pos[b] for grp in (der_steps, der_procs) for a, b in zip(grp, grp[1:]))
            ok_seen = all(this_phase[a] in view[b] for grp in (der_steps, der_procs) for a, b in zip(grp, grp[1:]))
            V.check('derivers_first_in_order', ok_first and ok_order and ok_seen,
                    lambda: ('derivers must run first, one at a time, in declaration order', names, der_steps, der_procs))
            for i in range(n):
                V.check('derivers_first_in_order', all(this_phase[d] in view['s%d' % i] for d in ders),
                        lambda: ('flow step s%d does not see the derivers\' updates' % i,))
        for i in range(n):
            me = 's%d' % i
            missing = [j for j in anc[i] if this_phase['s%d' % j] not in view[me]]
            V.check('sees_ancestors', not missing,
                    lambda: ('step %s ran before the update of its dependency %s was applied' % (me, ['s%d' % j for j in missing]), names))
            desc = [k for k in range(n) if i in anc[k] and this_phase['s%d' % k] in view[me]]
            V.check('not_descendants', not desc,
                    lambda: ('step %s sees the update of %s, which depends on it' % (me, ['s%d' % k for k in desc]), names))
        for i in range(n):
            for j in range(i):
                if depth[i] == depth[j]:
                    a = view['s%d' % i] & set(this_phase.values())
                    b = view['s%d' % j] & set(this_phase.values())
                    V.check('generation_same_view', a == b,
                            lambda: ('steps s%d and s%d can run together but saw different states' % (i, j), names))
    V.check('phase_per_batch', nphases == batches and nphases >= 1 and
            all(any(ev[0] == 'invoke' and ev[1] == 'step' for ev in ph) for ph in phases),
            lambda: ('a step phase must run at construction and after every batch', nphases, batches))
    # no step invocation outside a phase: steps invoked after the last emit
    tail = [ev for ev in cur if ev[0] == 'invoke' and ev[1] == 'step']
    V.check('phase_per_batch', not tail, lambda: ('steps ran after the last emitted row', len(tail)))
    edges = sum(len(v) for v in deps.values())
    nt = (n + len(ders) >= 3) and (edges >= 1 or ders) and nphases >= 3
    return {'viol': list(V), 'evals': V.evals, 'stats': {'phases': nphases, 'steps': n + len(ders), 'edges': edges},
            'nontrivial': bool(nt), 'classes': ['steps_%d' % n, 'derivers_%d' % len(ders),
                                                'nested' if any(comp[k] for k in comp) else 'flat'],
            'summary': {'phases': nphases, 'steps': n + len(ders), 'edges': edges}}


MANIFEST = {
    'text': 'Exploration with an exhaustive core: every DAG on <=4 steps (x 0-2 derivers, random declaration order) plus thousands of random nested flows of up to 8 steps with legacy derivers and 1-3 timed processes. Unique tokens carrying the ledger each step saw, the append-only ledger and the recording emitter give a total history; the checker validates exactly-once per phase, timestep 0, ancestor/descendant visibility, equal views per topological generation, derivers first in declaration order, and visibility of the batch\'s process updates. Family step_delete: one step of a chain / diamond / fan is deleted by a process while others depend on it; every step still in the hierarchy must be invoked exactly once in each later phase, in an order consistent with the remaining flow (D88).',
    'note': 'Reference generations = longest-path depth; deriver order across different dictionaries and order inside a generation not asserted; ".." dependency paths excluded.',
    'technique': 'runtime monitoring: token/ledger history with per-step seen-sets checked offline against the DAG\'s reference closure',
}
