"""C15 - every declared variable is built with its explicit or default initial value.

Monitor shape: the hierarchy right after construction (through each of the three
entry points) is compared node by node with an independent placement oracle
(R2 resolver + "given value else declared default"); declaration-conflict pairs
must raise / must not raise; Composite.initial_state() / default_state() are
compared with the resolver's placement of each process's own values."""
import copy

from vmon.util import Viol, flat, nest
from vmon import topo

ID = 'C15'
LEVEL = 'exploration'
RULE = ('topology cases as in C06 (probe process at depth 0-2 with 1-4 ports of every kind, an owner process '
        'declaring further leaves, ports sharing nodes) x partial initial states (each leaf absent / falsy value '
        '0, False, "", [] / distinct value) x three entry points (parts, Composite, store); glob children '
        'named in the initial state; declaration-conflict pairs (_value, _units, _serializer; equal and '
        'different); Composite.initial_state()/default_state() with per-process initial values; non-trivial = '
        '>=2 ports, >=1 absent and >=1 given leaf among the declared nodes; distinct = distinct case spec')
PLAN = {'quick': {'n': 9000, 'min_cases': 500}, 'thorough': {'n': 100000, 'min_cases': 10000}}
REQUIRED_ORACLES = ['composite_reusable', 'declared_exists', 'given_value', 'default_value', 'entry_points_agree', 'glob_children',
                    'conflict_raises', 'compatible_accepted', 'initial_state_placement', 'default_state_placement']
ANCHORS = ['vivarium.core.store:generate_state', 'vivarium.core.store:Store.generate',
           'vivarium.core.store:Store._apply_config', 'vivarium.core.store:Store.set_value',
           'vivarium.core.store:Store.apply_defaults', 'vivarium.core.store:Store._check_schema',
           'vivarium.core.composer:_get_composite_state_recur', 'vivarium.core.composer:Composite.initial_state',
           'vivarium.core.composer:Composite.default_state', 'vivarium.core.process:Process.default_state']
ASSUMPTIONS = ['which default wins when two declarations give different defaults is not asserted (value must be one of them)',
               'None is not used as an explicit initial value',
               'initial_state() placement: several variables of one process wired to one node all supply the same value; default_state() placement is asserted for nodes with a single declaring variable']

FALSY = [0, False, '', []]


GLOB_VARS = [('bd', 'x'), ('bd', 'z'), ('bd', 'in', 'u'), ('bd', 'in', 'v'), ('y',), ('w',), ('cd', 'x')]


def gen_globs(r):
    """2-3 processes with a glob port on one store, each declaring some (possibly nested) sub-variables;
    the children exist only because the initial state names them."""
    n = r.randint(2, 3)
    decls = []
    for j in range(n):
        vs = r.sample(GLOB_VARS, r.randint(1, 4))
        decls.append([[list(v), 100 * (j + 1) + k] for k, v in enumerate(vs)])
    children = ['c%d' % k for k in range(r.randint(1, 3))]
    given = []
    for c in children:
        for v in GLOB_VARS:
            k = r.random()
            if k < 0.25:
                given.append([[c] + list(v), copy.deepcopy(r.choice(FALSY)) if r.random() < 0.4 else r.randint(1, 50)])
    return {'family': 'globs', 'decls': decls, 'children': children, 'given': given,
            'store': r.choice([['G'], ['env', 'G'], ['env', 'lab', 'G']]), 'steps': [r.random() < 0.25 for _ in range(n)]}


def run_globs(spec):
    from vivarium.core.engine import Engine
    from vivarium.core.composer import Composite
    from vmon.sensors import plain_values
    V = Viol()
    G = tuple(spec['store'])
    procs, steps, tops = {}, {}, {}
    # a variable declared by several processes keeps one default (different ones belong to the conflict clause)
    declared = {}
    for decl in spec['decls']:
        for v, d in decl:
            declared.setdefault(tuple(v), [d])
    for j, decl in enumerate(spec['decls']):
        sub = {}
        for v, _ in decl:
            node = sub
            for k in v[:-1]:
                node = node.setdefault(k, {})
            node[v[-1]] = {'_default': declared[tuple(v)][0]}
        (steps if spec['steps'][j] else procs)['w%d' % j] = make_probe(spec['steps'][j])({'schema': {'g': {'*': sub}}})
        tops['w%d' % j] = {'g': G}
    if not procs:
        procs['idle'] = make_probe(False)({'schema': {}})
        tops['idle'] = {}
    given = {G + tuple(p): v for p, v in spec['given'] if tuple(p[1:]) in declared}
    for c in spec['children']:
        if not any(p[len(G)] == c for p in given):
            v = sorted(declared)[0]
            given[G + (c,) + v] = 77          # every child is named in the initial state
    init = nest(given)
    results = {}
    for mode in ('parts', 'composite', 'store', 'store_init'):
        try:
            if mode == 'store_init':
                c4 = Composite({'processes': dict(procs), 'steps': dict(steps), 'topology': copy.deepcopy(tops)})
                e = Engine(store=c4.generate_store({}), initial_state=copy.deepcopy(init), display_info=False, emitter='null')
            elif mode == 'parts':
                e = Engine(processes=dict(procs), steps=dict(steps) or None, topology=copy.deepcopy(tops),
                           initial_state=copy.deepcopy(init), display_info=False, emitter='null')
            elif mode == 'composite':
                e = Engine(composite=Composite({'processes': dict(procs), 'steps': dict(steps), 'topology': copy.deepcopy(tops),
                                                'state': copy.deepcopy(init)}), display_info=False, emitter='null')
            else:
                c = Composite({'processes': dict(procs), 'steps': dict(steps), 'topology': copy.deepcopy(tops)})
                e = Engine(store=c.generate_store({'initial_state': copy.deepcopy(init)}), display_info=False, emitter='null')
        except Exception as ex:
            import traceback
            V.check('glob_children', False, ('construction through %s raised' % mode, type(ex).__name__, str(ex)[:200],
                                             traceback.format_exc()[-300:]))
            continue
        got = flat(plain_values(e.state.get_value()))
        results[mode] = got
        for c in spec['children']:
            for v, ds in declared.items():
                ap = G + (c,) + v
                if ap in given:
                    V.check('given_value', ap in got and _same(got[ap], given[ap]),
                            lambda: ('glob child variable %s: initial state gives %r, built with %r (%s)' % (
                                '/'.join(ap), given[ap], got.get(ap, 'MISSING'), mode)))
                else:
                    V.check('glob_children', ap in got and _same(got[ap], ds[0]),
                            lambda: ('glob child variable %s declared by a sub-schema: expected default %r, built with %r (%s)' % (
                                '/'.join(ap), ds[0], got.get(ap, 'MISSING'), mode)))
    if len(results) >= 4:
        a, b, c, d4 = results['parts'], results['composite'], results['store'], results['store_init']
        V.check('entry_points_agree', _eqtree(a, b) and _eqtree(a, c) and _eqtree(a, d4) and _eqtree(a, results.get('composite_split', a)),
                lambda: ('the three entry points built different hierarchies',
                         {'/'.join(k): (a.get(k), b.get(k), c.get(k), d4.get(k)) for k in set(a) | set(b) | set(c) | set(d4)
                          if not (_same(a.get(k), b.get(k)) and _same(a.get(k), c.get(k)) and _same(a.get(k), d4.get(k)))}))
    shared_keys = len({v[0] for v in declared}) < len(declared)
    return {'viol': list(V), 'evals': V.evals, 'nontrivial': len(spec['decls']) >= 2 and shared_keys,
            'classes': ['glob_declarers'], 'summary': {'declarers': len(spec['decls']), 'children': len(spec['children'])}}


def run_nested_glob(spec):
    """A glob store (agents) whose children hold a second glob store (bulk): a child of the lower store that
    a process declares without a default of its own gets the lower glob's declared default."""
    from vivarium.core.engine import Engine
    from vivarium.core.composer import Composite
    from vmon.sensors import plain_values
    V = Viol()
    Probe = make_probe(False)
    d = spec['default']
    procs = {'w': Probe({'schema': {'agents': {'*': {'m': {'_default': 1}}}}}), 'agents': {}}
    tops = {'w': {'agents': ('agents',)}, 'agents': {}}
    for a in spec['agents']:
        procs['agents'][a] = {'lower': Probe({'schema': {'bulk': {'*': {'_default': d}}}}),
                              'named': Probe({'schema': {'bulk': {v: {'_emit': True} for v in spec['vars']}}})}
        tops['agents'][a] = {'lower': {'bulk': ('bulk',)}, 'named': {'bulk': ('bulk',)}}
        if spec['order']:
            procs['agents'][a] = dict(reversed(list(procs['agents'][a].items())))
    for mode in ('parts', 'composite', 'store'):
        try:
            if mode == 'parts':
                e = Engine(processes=copy.copy(procs), topology=copy.deepcopy(tops), display_info=False, emitter='null')
            elif mode == 'composite':
                e = Engine(composite=Composite({'processes': copy.copy(procs), 'topology': copy.deepcopy(tops)}),
                           display_info=False, emitter='null')
            else:
                e = Engine(store=Composite({'processes': copy.copy(procs), 'topology': copy.deepcopy(tops)}).generate_store({}),
                           display_info=False, emitter='null')
        except Exception as ex:
            V.check('glob_children', False, ('construction through %s raised' % mode, type(ex).__name__, str(ex)[:200]))
            continue
        got = flat(plain_values(e.state.get_value()))
        for a in spec['agents']:
            V.check('default_value', _same(got.get(('agents', a, 'm')), 1),
                    lambda: ('agents/%s/m: expected the glob default 1, built with %r (%s)' % (a, got.get(('agents', a, 'm')), mode)))
            for v in spec['vars']:
                V.check('default_value', _same(got.get(('agents', a, 'bulk', v)), d),
                        lambda: ('agents/%s/bulk/%s is declared without a default under a glob store declaring %r: built with %r (%s)' % (
                            a, v, d, got.get(('agents', a, 'bulk', v)), mode)))
    return {'viol': list(V), 'evals': V.evals, 'nontrivial': True, 'classes': ['nested_glob'], 'summary': {'agents': len(spec['agents'])}}


def run_parallel(spec):
    """A process marked _parallel (it lives in a worker; the engine talks to a wrapper) that carries a schema
    override: the store is built from the overridden declaration, through every entry point."""
    from vivarium.core.engine import Engine
    from vivarium.core.composer import Composite
    from vmon.sensors import plain_values, Declared
    V = Viol()
    d0, d1 = spec['default'], spec['override']
    for mode in spec['modes']:
        params = {'schema': {'S': {'level': {'_default': d0}, 'cap': {'_default': 10.0}}}, '_parallel': True}
        ov = {'S': {'level': {'_default': d1}}}
        if spec['via'] == 'param':
            params['_schema'] = ov
        comp = Composite({'processes': {'p': Declared(params)}, 'topology': {'p': {'S': ('s',)}}})
        if spec['via'] == 'merge':
            comp.merge(schema_override={'p': ov})
        init = {'s': {'cap': 3.0}} if spec['given'] else {}
        e = None
        try:
            if mode == 'parts':
                e = Engine(processes=comp['processes'], topology=comp['topology'], initial_state=init, display_info=False, emitter='null')
            elif mode == 'composite':
                e = Engine(composite=comp, initial_state=init, display_info=False, emitter='null')
            else:
                e = Engine(store=comp.generate_store({'initial_state': init}), display_info=False, emitter='null')
            got = plain_values(e.state.get_value())['s']
            V.check('default_value', _same(got.get('level'), d1) and _same(got.get('cap'), 3.0 if spec['given'] else 10.0),
                    lambda: ('parallel process with a schema override (via %s, default %r overridden by %r), built through %s: s = %r' % (
                        spec['via'], d0, d1, mode, got)))
            if mode == 'composite':
                ds = comp.default_state()
                V.check('default_state_placement', _same(ds.get('s', {}).get('level'), d1),
                        lambda: ('default_state() of the composite the engine was built from (its process now runs in a worker): %r, '
                                 'overridden default %r' % (ds, d1)))
        except Exception as ex:
            V.check('default_value', False, ('construction of a parallel process through %s raised' % mode, type(ex).__name__, str(ex)[:200]))
        finally:
            if e is not None:
                try:
                    e.end()
                except Exception:
                    pass
    return {'viol': list(V), 'evals': V.evals, 'nontrivial': True, 'classes': ['parallel_override'], 'summary': {'via': spec['via']}}


def gen(r, tier, i):
    k = r.random()
    if i % 400 == 3:
        return {'family': 'parallel', 'default': r.choice([1.0, 0, 5]), 'override': r.choice([7.5, 0.0, False, [], 2]),
                'via': r.choice(['param', 'merge']), 'given': r.random() < 0.5,
                'modes': r.sample(['parts', 'composite', 'store'], 2)}
    if k < 0.03:
        return {'family': 'nested_glob', 'default': r.choice([0.5, 0, 7, False]), 'agents': ['a%d' % j for j in range(r.randint(1, 3))],
                'vars': r.sample(['glc', 'atp', 'x'], r.randint(1, 3)), 'order': r.random() < 0.5}
    if k < 0.18:
        return gen_globs(r)
    case = topo.gen_case(r, maxports=4, allow_collisions=r.random() < 0.5)
    given = []
    for p, v in case['leaves']:
        k = r.random()
        if k < 0.35:
            continue
        if k < 0.55:
            given.append([p, copy.deepcopy(r.choice(FALSY))])
        else:
            given.append([p, v + 1])
    case['given'] = given
    case['probe_is_step'] = r.random() < 0.4       # the declaring process is a Step (listed under steps)
    case['conflict'] = {'key': r.choice(['_value', '_units', '_serializer', '_default', '_updater', 'default_units', 'value_units', '_value_dict', '_value_dict_rev', '_value_qarr',
                                         '_serializer_qdefault', '_serializer_units', '_serializer_units_late']),
                        'same': r.random() < 0.4}
    return case


def make_probe(step=False):
    from vivarium.core.process import Process, Step

    class Probe(Step if step else Process):
        def ports_schema(self):
            return copy.deepcopy(self.parameters['schema'])

        def initial_state(self, config=None):
            # (the stored dictionary itself: a composite that merges it with others must not change it)
            return self.parameters.get('own_initial', {})

        def next_update(self, timestep, states):
            return {}
    return Probe


def _same(a, b):
    return type(a) is type(b) and a == b


def run(spec):
    if spec.get('family') == 'globs':
        return run_globs(spec)
    if spec.get('family') == 'parallel':
        return run_parallel(spec)
    if spec.get('family') == 'nested_glob':
        return run_nested_glob(spec)
    from vivarium.core.engine import Engine
    from vivarium.core.composer import Composite
    from vivarium.core.store import Store
    from vmon.sensors import plain_values
    V = Viol()
    schema = spec['schema']
    tp = topo.tup(spec['topology'])
    ppath = tuple(spec['ppath'])
    lv = topo.leaves_of(spec)
    given = {tuple(p): v for p, v in spec['given']}
    is_step = bool(spec.get('probe_is_step'))
    Probe = make_probe(is_step)
    Owner = make_probe(False)
    osch, otop = topo.owner_parts(spec)

    def parts(own_initial=None, own_owner=None):
        probe = nest({ppath: Probe({'schema': schema, 'own_initial': own_initial or {}})})
        procs, steps = ({}, probe) if is_step else (probe, {})
        tops = nest({ppath: tp})
        if osch:
            owner = Owner({'schema': osch, 'own_initial': own_owner or {}})
            if spec.get('owner_first'):
                procs = dict({'owner': owner}, **procs)
            else:
                procs['owner'] = owner
            tops['owner'] = otop
        elif is_step:
            # the engine needs at least one entry under processes or steps with the topology; a no-port process
            procs['idle'] = Owner({'schema': {}})
            tops['idle'] = {}
        MemberStep = make_probe(True)
        for mpath, msch, mtop, mstep in topo.member_parts(spec):
            inst = (MemberStep if mstep else Owner)({'schema': msch})
            tgt = steps if mstep else procs
            node = tgt
            for k in mpath[:-1]:
                node = node.setdefault(k, {})
            node[mpath[-1]] = inst
            node = tops
            for k in mpath[:-1]:
                node = node.setdefault(k, {})
            node[mpath[-1]] = mtop
        return procs, steps, tops

    given_tree = nest(given) if given else {}
    # the tree the resolver sees for glob children: children named in the initial state or owned
    known = dict(given)
    for p in spec.get('owned', []):
        known.setdefault(tuple(p), lv[tuple(p)])
    for mpath, msch, mtop, mstep in topo.member_parts(spec):
        known.setdefault(mpath[:-1] + ('x',), msch['M']['x']['_default'])
    rtree = nest(known) if known else {}
    ref = topo.resolve(schema, tp, ppath[:-1], rtree, writes=True)
    # declared nodes -> candidate defaults
    cand = {}

    def default_of(sch, vp):
        node = sch
        for k in vp:
            if node == '**':
                return None
            node = node.get(k) if k in node else node.get('*')
        return node.get('_default') if isinstance(node, dict) else None
    for vp, ap in ref.items():
        d = default_of(schema, vp)
        if schema.get(vp[0]) == '**' or d is None and not topo.is_leaf_schema(_sub(schema, vp)):
            continue
        cand.setdefault(ap, []).append(d)
    for i, p in enumerate(spec.get('owned', [])):
        cand.setdefault(tuple(p), []).append(lv[tuple(p)])
    for mpath, msch, mtop, mstep in topo.member_parts(spec):
        cand.setdefault(mpath[:-1] + ('x',), []).append(msch['M']['x']['_default'])

    results = {}
    for mode in ('parts', 'composite', 'store', 'store_init', 'composite_split'):
        procs, steps, tops = parts()
        try:
            if mode == 'composite_split':
                # one half of the initial state comes with the Composite, the other half with the engine
                ga = {p: v for k, (p, v) in enumerate(sorted(given.items(), key=str)) if k % 2 == 0}
                gb = {p: v for k, (p, v) in enumerate(sorted(given.items(), key=str)) if k % 2 == 1}
                e = Engine(composite=Composite({'processes': procs, 'steps': steps, 'topology': tops,
                                                'state': copy.deepcopy(nest(ga)) if ga else {}}),
                           initial_state=copy.deepcopy(nest(gb)) if gb else None, display_info=False, emitter='null')
            elif mode == 'store_init':
                # the store is generated first, the initial state comes with the engine
                c4 = Composite({'processes': procs, 'steps': steps, 'topology': tops})
                e = Engine(store=c4.generate_store({}), initial_state=copy.deepcopy(given_tree) or None,
                           display_info=False, emitter='null')
            elif mode == 'parts':
                e = Engine(processes=procs, steps=steps, topology=tops, initial_state=copy.deepcopy(given_tree) or None,
                           display_info=False, emitter='null')
            elif mode == 'composite':
                e = Engine(composite=Composite({'processes': procs, 'steps': steps, 'topology': tops,
                                                'state': copy.deepcopy(given_tree)}),
                           display_info=False, emitter='null')
            else:
                c = Composite({'processes': procs, 'steps': steps, 'topology': tops})
                e = Engine(store=c.generate_store({'initial_state': copy.deepcopy(given_tree)}),
                           display_info=False, emitter='null')
                # the Composite can be used again: a second store built from it without an initial
                # state holds the declared defaults, not the values given to the first build
                V.check('composite_reusable', not c['state'],
                        lambda: ('building a store with an explicit initial state changed Composite.state', repr(c['state'])[:200]))
                again = {p: v for p, v in flat(plain_values(c.generate_store({}).get_value())).items()}
                stale = {'/'.join(ap): (again.get(ap), given[ap]) for ap, defaults in cand.items()
                         if ap in given and ap in again and not any(_same(again[ap], d) for d in defaults)}
                V.check('composite_reusable', not stale,
                        lambda: ('second store built from the same Composite without initial state shows the first build\'s values (got, first build\'s value)', stale))
                # the declarations may change between two builds (a schema override merged into the Composite):
                # the next build follows the new declaration
                targets = {}
                for vp, ap in ref.items():
                    targets.setdefault(ap, []).append(vp)
                pick = [(vp, ap) for vp, ap in sorted(ref.items(), key=str)
                        if len(vp) == 2 and len(targets[ap]) == 1 and isinstance(schema.get(vp[0]), dict) and
                        isinstance(schema[vp[0]].get(vp[1]), dict) and '_default' in schema[vp[0]][vp[1]] and
                        not ap[0].startswith('g') and list(ap) not in spec.get('owned', []) and len(cand.get(ap, [])) == 1]
                if pick:
                    vp, ap = pick[0]
                    ov = {vp[0]: {vp[1]: {'_default': 4242}}}
                    for k in reversed(ppath):
                        ov = {k: ov}
                    c.merge(schema_override=ov)
                    third = flat(plain_values(c.generate_store({}).get_value()))
                    V.check('composite_reusable', _same(third.get(ap), 4242),
                            lambda: ('after a schema override changed the default of %s to 4242, a new store built from the '
                                     'Composite holds %r' % ('/'.join(ap), third.get(ap))))
        except Exception as ex:
            import traceback
            V.check('declared_exists', False, ('construction through %s raised' % mode, type(ex).__name__, str(ex)[:200],
                                               traceback.format_exc()[-300:]))
            continue
        got = {p: v for p, v in flat(plain_values(e.state.get_value())).items()}
        results[mode] = got
        for ap, defaults in cand.items():
            if ap not in got:
                V.check('declared_exists', False, ('declared variable missing after construction (%s)' % mode, '/'.join(ap)))
                continue
            V.check('declared_exists', True)
            if ap in given:
                V.check('given_value', _same(got[ap], given[ap]),
                        lambda: ('variable %s: initial state gives %r, built with %r (%s)' % ('/'.join(ap), given[ap], got[ap], mode)))
            else:
                V.check('default_value', any(_same(got[ap], d) for d in defaults),
                        lambda: ('variable %s: no initial value, declared default(s) %r, built with %r (%s)' % ('/'.join(ap), defaults, got[ap], mode)))
        # glob children named in the initial state carry the declared sub-variables
        for vp, ap in ref.items():
            if ap[0].startswith('g'):
                V.check('glob_children', ap in got, lambda: ('glob child variable missing', '/'.join(ap), mode))
    if len(results) >= 4:
        a, b, c, d4 = results['parts'], results['composite'], results['store'], results['store_init']
        V.check('entry_points_agree', _eqtree(a, b) and _eqtree(a, c) and _eqtree(a, d4) and _eqtree(a, results.get('composite_split', a)),
                lambda: ('the three entry points built different hierarchies',
                         {'/'.join(k): (a.get(k), b.get(k), c.get(k), d4.get(k)) for k in set(a) | set(b) | set(c) | set(d4)
                          if not (_same(a.get(k), b.get(k)) and _same(a.get(k), c.get(k)) and _same(a.get(k), d4.get(k)))}))

    # conflicts between two declarations of one variable
    conflict_case(V, spec)

    # Composite.initial_state() / default_state()
    single = {}
    for vp, ap in ref.items():
        single.setdefault(ap, []).append(vp)
    own = {}
    expect_init = {}
    for j, (vp, ap) in enumerate(sorted(ref.items(), key=str)):
        if any(schema.get(w[0]) == '**' for w in single[ap]) or ap[0].startswith('g') or \
                list(ap) in spec.get('owned', []):
            continue
        # (several variables of the process wired to one node all give the same value: the node must
        # hold that value, not a list of them)
        node = own
        for k in vp[:-1]:
            node = node.setdefault(k, {})
        node[vp[-1]] = expect_init.setdefault(ap, 70000 + j)
    own_before = copy.deepcopy(own)
    procs, steps, tops = parts(own_initial=own)
    comp = Composite({'processes': procs, 'steps': steps, 'topology': tops})
    try:
        st = flat(comp.initial_state() or {})
        V.check('initial_state_placement', own == own_before,
                lambda: ('Composite.initial_state() changed the dictionary a process returned from its own initial_state()',
                         repr(own_before)[:300], repr(own)[:300]))
        bad = {('/'.join(ap)): (v, st.get(ap, 'MISSING')) for ap, v in expect_init.items() if st.get(ap, 'MISSING') != v}
        V.check('initial_state_placement', not bad,
                lambda: ('Composite.initial_state() does not place a process\'s own value at the node its port is wired to (expected, got)', bad))
        ds = flat(comp.default_state() or {})
        bad = {}
        for ap, defaults in cand.items():
            if len(single.get(ap, [])) != 1 or ap[0].startswith('g') or list(ap) in spec.get('owned', []):
                continue
            if not any(_same(ds.get(ap, 'MISSING'), d) for d in defaults):
                bad['/'.join(ap)] = (defaults, ds.get(ap, 'MISSING'))
        V.check('default_state_placement', not bad,
                lambda: ('Composite.default_state() does not place a declared default at the node its port is wired to (defaults, got)', bad))
        # ... and it names nodes only: the sub-schema of a glob port ('*') describes children, it is not a child
        stars = ['/'.join(map(str, ap)) for ap in ds if '*' in ap]
        V.check('default_state_placement', not stars,
                lambda: ('Composite.default_state() holds a child literally named "*" (the sub-schema of a glob port)', stars))
    except Exception as ex:
        import traceback
        V.check('initial_state_placement', False, ('initial_state()/default_state() raised', type(ex).__name__, str(ex)[:200],
                                                   traceback.format_exc()[-300:]))
    n_given = sum(1 for ap in cand if ap in given)
    n_absent = sum(1 for ap in cand if ap not in given)
    return {'viol': list(V), 'evals': V.evals, 'stats': {'declared_nodes': len(cand), 'given': n_given, 'defaulted': n_absent},
            'nontrivial': len(schema) >= 2 and n_given >= 1 and n_absent >= 1,
            'classes': sorted({'kind_' + k for k in spec['kinds']} | {'depth_%d' % (len(ppath) - 1)}),
            'summary': {'declared_nodes': len(cand), 'given': n_given, 'defaulted': n_absent}}


def _sub(schema, vp):
    node = schema
    for k in vp:
        if not isinstance(node, dict):
            return node
        node = node.get(k) if k in node else node.get('*')
    return node


def _eqtree(a, b):
    return a.keys() == b.keys() and all(_same(a[k], b[k]) for k in a)


def conflict_case(V, spec):
    """Two processes declare one variable; explicit _value/_units/_serializer conflicts must raise,
    compatible (equal) declarations must not."""
    from vivarium.core.engine import Engine
    from vivarium.library.units import units
    import numpy as np
    Probe = make_probe(False)
    key, same = spec['conflict']['key'], spec['conflict']['same']
    vals = {'_value': (5, 5 if same else 6),
            '_units': (units.fg, units.fg if same else units.s),
            '_serializer': ('vmon_tag_a', 'vmon_tag_a' if same else 'vmon_tag_b'),
            # serializer conflicts on a variable that also has units (a quantity default, a _units key, or the
            # units given by one declarer only): the units must not make the explicit serializers negotiable
            '_serializer_qdefault': ('vmon_tag_a', 'vmon_tag_a' if same else 'vmon_tag_b'),
            '_serializer_units': ('vmon_tag_a', 'vmon_tag_a' if same else 'vmon_tag_b'),
            '_serializer_units_late': ('vmon_tag_a', 'vmon_tag_a' if same else 'vmon_tag_b'),
            '_default': (1, 1 if same else 2),
            '_updater': ('set', 'set' if same else 'accumulate'),
            # units given only through the defaults: another unit of the same dimension is compatible (the first
            # declaration's unit is kept), a unit of another dimension is a conflict; also default against _value
            'default_units': (1.0 * units.fg, 1000.0 * units.ag if same else 1.0 * units.s),
            'value_units': (1.0 * units.fg, 1000.0 * units.ag if same else 1.0 * units.s),
            # dictionary values: equal, or the second a strict superset of the first (in either listing order)
            # arrays with units: equal arrays are compatible, different ones are a conflict
            '_value_qarr': (np.ones(3) * units.fg, np.ones(3) * units.fg if same else 2 * np.ones(3) * units.fg),
            '_value_dict': ({'lower': 0.0, 'n': {'a': 1}}, {'lower': 0.0, 'n': {'a': 1}} if same else {'lower': 0.0, 'n': {'a': 1, 'b': 2}}),
            '_value_dict_rev': ({'lower': 0.0, 'upper': 10.0}, {'lower': 0.0, 'upper': 10.0} if same else {'lower': 0.0})}[key]
    if key in ('_value_dict', '_value_dict_rev', '_value_qarr'):
        key_name = '_value'
    elif key.startswith('_serializer_'):
        key_name = '_serializer'
    else:
        key_name = key
    _ensure_serializers()
    base = {'_default': 1.0 * units.fg} if key == '_units' else {'_default': 1}
    s1 = {'P': {'x': dict(base, **{key_name: vals[0]})}}
    s2 = {'P': {'x': dict(base, **{key_name: vals[1]})}}
    if key == 'default_units':
        s1 = {'P': {'x': {'_default': vals[0]}}}
        s2 = {'P': {'x': {'_default': vals[1]}}}
    elif key == 'value_units':
        s1 = {'P': {'x': {'_default': vals[0]}}}
        s2 = {'P': {'x': {'_value': vals[1]}}}
    elif key == '_serializer_qdefault':
        s1 = {'P': {'x': {'_default': 1.0 * units.fg, '_serializer': vals[0]}}}
        s2 = {'P': {'x': {'_default': 1.0 * units.fg, '_serializer': vals[1]}}}
    elif key == '_serializer_units':
        s1 = {'P': {'x': {'_default': 1.0 * units.fg, '_units': units.fg, '_serializer': vals[0]}}}
        s2 = {'P': {'x': {'_default': 1.0 * units.fg, '_units': units.fg, '_serializer': vals[1]}}}
    elif key == '_serializer_units_late':
        s1 = {'P': {'x': {'_default': 1.0 * units.fg, '_serializer': vals[0]}}}
        s2 = {'P': {'x': {'_default': 1.0 * units.fg, '_units': units.fg, '_serializer': vals[1]}}}
    try:
        Engine(processes={'a': Probe({'schema': s1}), 'b': Probe({'schema': s2})},
               topology={'a': {'P': ('st',)}, 'b': {'P': ('st',)}}, display_info=False, emitter='null')
        raised = None
    except Exception as ex:
        raised = ex
    if key in ('_value', '_units', '_serializer', 'default_units', 'value_units', '_value_dict', '_value_dict_rev', '_value_qarr',
               '_serializer_qdefault', '_serializer_units', '_serializer_units_late'):
        if same:
            V.check('compatible_accepted', raised is None, lambda: ('equal %s declarations rejected' % key, repr(raised)[:200]))
        else:
            V.check('conflict_raises', raised is not None, ('conflicting %s declarations accepted silently' % key, repr(vals)))
    elif same:
        V.check('compatible_accepted', raised is None, lambda: ('equal %s declarations rejected' % key, repr(raised)[:200]))


def _ensure_serializers():
    from vivarium.core.registry import Serializer, serializer_registry
    for name in ('vmon_tag_a', 'vmon_tag_b'):
        if serializer_registry.access(name) is None:
            class S(Serializer):
                python_type = int

                def serialize(self, data):
                    return str(data)
            s = S()
            s.name = name
            serializer_registry.register(name, s)


MANIFEST = {
    'text': 'Exploration: generated composites (probe + owner processes, every port kind, shared nodes, glob children) x partial initial states with falsy values x the three construction entry points; the hierarchy right after construction is compared node by node with the resolver-based placement oracle (given value, else a declared default); declaration-conflict pairs must raise or be accepted; Composite.initial_state()/default_state() are compared with the resolver placement of per-process values.',
    'note': 'Which of two different defaults wins is not asserted; None not used as an explicit value; trusts the resolver R2.',
    'technique': 'runtime monitoring: post-construction hierarchy snapshot vs resolver-based placement oracle, across three entry points',
}
