"""C02 - the timestep handed to a process equals the simulated interval it covers.

Monitor shape: unique tokens carry the timestep argument; the append-only ledger
updater records the global time at which each token is applied; an offline
checker relates argument, apply times and the exact interval model; a Clock-like
accumulator is compared with the elapsed time after every update()."""
from fractions import Fraction as F
from decimal import Decimal as D

from vmon.util import Viol
from vmon import sched

ID = 'C02'
LEVEL = 'exploration'
RULE = ('1-5 always-on ledger processes with constant or invocation-indexed timesteps on a dyadic grid (exact '
        'floats) or a decimal grid with global_time_precision 1-3; 1-7 run_for(interval, force)/update(interval) '
        'calls, run lengths not divisible by the timesteps, several forced completions per sequence, nonzero '
        'initial time, every sequence ends with update(); in 30% of the cases some processes carry an update condition (their intervals must not overlap); non-trivial = >=2 processes or >=3 calls, and at least '
        'one interval truncated by forced completion or deferred across a call boundary; distinct = distinct spec')
PLAN = {'quick': {'n': 20000, 'min_cases': 1500}, 'thorough': {'n': 250000, 'min_cases': 30000}}
REQUIRED_ORACLES = ['non_overlapping', 'contiguous', 'argument_is_interval', 'requested_or_truncated', 'sum_is_elapsed',
                    'clock_accumulator', 'nothing_pending', 'asked_for_each_interval']
ANCHORS = ['vivarium.core.engine:Engine.run_for', 'vivarium.core.engine:Engine.update',
           'vivarium.core.engine:Engine._check_complete', 'vivarium.core.process:Process.calculate_timestep']
ASSUMPTIONS = ['always-on processes whose timestep answer depends only on their own invocation index',
               'exactly representable grids (dyadic, or decimal with a precision)']


def gen(r, tier, i):
    if r.random() < 0.04:
        # processes that enter the simulation at run time (generated, divided, moved compartments): C10's
        # structural workload, judged here on "intervals contiguous, starting when the process entered" only
        from vmon.checks import c10
        return {'family': 'structural', 'c10': c10.gen(r, tier, i)}
    if r.random() < 0.7:
        grid, prec = 'dyadic', None
        t0 = r.choice([0, 0, 0.0, 1.5, 10.0, 100.25])
    else:
        grid, prec = 'decimal', r.choice([1, 2, 3])
        t0 = r.choice([0, 0, float(r.choice(sched.DEC[prec]['iv']))])
    n = r.randint(1, 5)
    procs = [{'pid': pid, 'ts': sched.gen_ts(r, grid, prec)} for pid in range(n)]
    if r.random() < 0.3:
        # some processes with an update condition: their intervals must still not overlap
        for p in procs[1:] or procs:
            c = r.random()
            if c < 0.35:
                p['cond'] = 'flag'
            elif c < 0.5:
                p['cond_path'] = True
            elif c < 0.7:
                p['cond'] = {'seq': [r.random() < 0.6 for _ in range(r.randint(2, 6))]}
        for p in procs:
            p['toggle'] = r.choice([0, 1, 2, 3])
    par = r.random() < (0.01 if tier == 'thorough' else 0.004)
    if par:
        # some processes run in a worker (the ledger updater in the parent still sees every applied token)
        for p in procs:
            if r.random() < 0.7:
                p['parallel'] = True
    calls = sched.cap_events(r, procs, sched.gen_calls(r, grid, prec, maxcalls=6, end_with_update=True, zero=True), grid, prec,
                             cap=60 if par else 260)
    return {'grid': grid, 'precision': prec, 't0': t0, 'procs': procs, 'calls': calls, 'parallel': par}


def exact(x, grid):
    return F(x) if grid == 'dyadic' else F(D(repr(x)))


def run(spec):
    if spec.get('family') == 'structural':
        from vmon.checks import c10
        from vmon.util import harvest
        return harvest(c10.run(spec['c10']), ('starts_at_creation', 'schedule_contiguous'), ['structural'])
    from vmon.sensors import Mon, drive
    V = Viol()
    m = Mon()
    Mon.cur = m
    grid = spec['grid']
    try:
        e = sched.build(spec)
        m.eng = e
        ok, exc = drive(e, m, spec['calls'], sched.budget_for(spec))
    except Exception as ex:
        Mon.cur = None
        V.check('no_exception', False, ('constructor raised', type(ex).__name__, str(ex)[:200]))
        return {'viol': list(V), 'evals': V.evals, 'nontrivial': False}
    Mon.cur = None
    if spec.get('parallel'):
        try:
            e.end()
        except Exception as ex:
            V.check('no_exception', False, ('Engine.end() raised', type(ex).__name__, str(ex)[:200]))
    if not ok:
        V.check('no_exception', False, ('run_for/update did not return', repr(exc)[:300]))
    t0 = exact(spec['t0'], grid)
    # per-process observation: tokens in application order with their apply times
    applied = {}
    invoked = {}
    upd_returns = []     # (index in event list, global time) of each update() return
    cur = None
    for idx, ev in enumerate(m.events):
        if ev[0] == 'apply':
            applied.setdefault(ev[1][0], []).append((ev[1], ev[2]))
        elif ev[0] == 'invoke' and ev[1] == 'process':
            invoked.setdefault(ev[2][0], []).append(ev[2])
        elif ev[0] == 'call':
            cur = ev
        elif ev[0] == 'ret' and cur is not None and cur[1] == 'update':
            upd_returns.append((idx, ev[1]))
    calls = [(iv, bool(f)) for iv, f in spec['calls']]
    truncated = deferred = 0
    for p in spec['procs']:
        pid = p['pid']
        toks = applied.get(pid, [])
        prev = t0
        total = F(0)
        if p.get('cond') or p.get('cond_path'):
            # conditional process: intervals [apply - ts, apply] do not overlap and start after it entered
            for n, (tok, at) in enumerate(toks):
                ts = exact(tok[2], grid)
                A = exact(at, grid)
                V.check('non_overlapping', A - ts >= prev,
                        lambda: ('interval [%r, %r] of process %d overlaps its previous interval ending at %r' % (
                            float(A - ts), at, pid, float(prev)), tok[1]))
                prev = A
                total += ts
            if ok:
                V.check('non_overlapping', total <= exact(e.global_time, grid) - t0,
                        lambda: ('timesteps handed to conditional process %d sum to %r, more than the %r elapsed' % (
                            pid, float(total), float(exact(e.global_time, grid) - t0)),))
            if not p.get('parallel') and p['ts']['kind'] != 'param':
                # (timestep kind param keeps the default calculate_timestep, which is not observed)
                # the timestep of every interval the engine evaluates is one the process was asked for: between two
                # evaluations of the update condition the process's calculate_timestep is called (an answer that
                # could not be used before a call's end time is kept for the next call, but used once)
                fresh = False
                for ev in m.events:
                    if ev[0] == 'poll' and ev[1] == pid:
                        fresh = True
                    elif ev[0] == 'cond' and ev[1] == pid:
                        V.check('asked_for_each_interval', fresh,
                                lambda: ('process %d: update condition evaluated at t=%r for an interval the process was not '
                                         'asked a timestep for (the previous answer was used again)' % (pid, ev[2]),))
                        fresh = False
            continue
        for n, (tok, at) in enumerate(toks):
            ts = exact(tok[2], grid)
            A = exact(at, grid)
            V.check('contiguous', tok[1] == n, lambda: ('tokens of one process applied out of order', pid, [t[0][1] for t in toks][:20]))
            V.check('argument_is_interval', A - prev == ts,
                    lambda: ('timestep argument %r != interval covered [%r, %r]' % (tok[2], float(prev), at), pid, tok[1]),
                    mechanism=None)
            prev = A
            total += ts
        # against the model: requested answer unless truncated by forced completion
        ivs, S, t_end = sched.model_always_on(p, calls, spec['t0'], grid)
        for (k, S_k, E_k, arg), (tok, at) in zip(ivs, toks):
            ans = sched.num(p['ts']['v'] if p['ts']['kind'] == 'const' else p['ts']['seq'][k % len(p['ts']['seq'])], grid)
            if arg != ans:
                truncated += 1
            V.check('requested_or_truncated', exact(tok[2], grid) == arg and exact(at, grid) == E_k,
                    lambda: ('argument/apply time differ from the interval model', pid, k, 'arg', tok[2], 'expected', float(arg),
                             'applied', at, 'expected', float(E_k)))
        V.check('requested_or_truncated', len(ivs) == len(toks), lambda: ('number of intervals', pid, len(toks), len(ivs)))
        if ok:
            final = exact(e.global_time, grid)
            V.check('sum_is_elapsed', total == final - t0,
                    lambda: ('timesteps handed to process %d sum to %r, elapsed %r' % (pid, float(total), float(final - t0))))
            # (invocations inside a worker are not seen by the parent's event log)
            V.check('nothing_pending', p.get('parallel') or len(invoked.get(pid, [])) == len(toks),
                    lambda: ('after update(): invoked %d, applied %d' % (len(invoked.get(pid, [])), len(toks)), pid))
    # deferral statistic: an invoke whose interval start precedes the call start
    starts = [ev[4] for ev in m.events if ev[0] == 'call']
    for ev in m.events:
        if ev[0] == 'invoke' and ev[1] == 'process':
            tok, t = ev[2], ev[3]
    # Clock-like accumulator after every update(): from the emitted rows
    rows = {}
    for ev in m.events:
        if ev[0] == 'emit' and ev[1] == 'history':
            rows[ev[2]] = ev[3]
    for idx, T in upd_returns:
        row = rows.get(T)
        if row is None:
            # no update was applied at T (every process truncated to zero length?) - use the live state
            continue
        for p in spec['procs']:
            if p.get('cond') or p.get('cond_path'):
                continue
            c = row.get('clock', {}).get('p%d' % p['pid'])
            V.check('clock_accumulator', c is not None and abs(c - (T - spec['t0'])) <= 1e-9 * (1 + abs(T)) and
                    (grid != 'dyadic' or c == T - spec['t0']),
                    lambda: ('Clock-like accumulator %r != elapsed time %r after update()' % (c, T - spec['t0']), p['pid']))
    # deferred intervals: poll events whose answer was not honoured in the same call
    polls = [ev for ev in m.events if ev[0] == 'poll']
    invs = [ev for ev in m.events if ev[0] == 'invoke' and ev[1] == 'process']
    deferred = max(0, len(polls) - len(invs))
    nt = (len(spec['procs']) >= 2 or len(spec['calls']) >= 3) and (truncated > 0 or deferred > 0)
    return {'viol': list(V), 'evals': V.evals,
            'stats': {'tokens': sum(len(v) for v in applied.values()), 'truncated_intervals': truncated,
                      'repolls': deferred, 'update_returns': len(upd_returns)},
            'nontrivial': nt, 'classes': ['grid_' + grid, 'precision_%s' % spec['precision'],
                                          'truncated' if truncated else 'not_truncated',
                                          'deferred' if deferred else 'not_deferred'],
            'summary': {'tokens': sum(len(v) for v in applied.values()), 'truncated': truncated, 'repolls': deferred}}


MANIFEST = {
    'text': 'Exploration: thousands of generated schedules (timesteps not dividing the run length, several forced completions, deferral across call boundaries, nonzero initial time, dyadic and decimal+precision grids). Every next_update argument travels in a unique token; the ledger updater records when the token is applied; the checker demands argument == apply time - previous apply time, equality with the exact interval model, sum == elapsed, Clock accumulator == elapsed, nothing pending after update().',
    'note': 'Always-on processes with re-poll-stable timesteps only (conditional / poll-varying processes are C01/C03 material); exact grids; trusts the interval model R1 in vmon/sched.py.',
    'technique': 'runtime monitoring: token/ledger history checked offline against an exact interval model',
}
