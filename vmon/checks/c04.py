"""C04 - processes started together see one committed snapshot; listing order is moot.

Monitor shape: (grammar class) every invocation records the ledger it was
shown; the ordered event log is checked for "no apply between two invocations of
one pass / one step layer" and "every process invoked at an instant sees exactly
the last committed (emitted) ledger"; (permutation class) metamorphic runs of one
composite under random permutations of the insertion order of processes, steps,
flow, topology, ports and initial-state keys must emit identical trajectories."""
import copy
import random

from vmon.util import Viol
from vmon import sched

ID = 'C04'
LEVEL = 'exploration'
RULE = ('grammar class: 2-6 ledger processes with coincident interval ends (dyadic timesteps) plus 0-3 flow-less '
        'ledger steps, 1-5 run_for/update calls; permutation class: 2-5 processes whose accumulate / set-to-own-'
        'variable updates depend on the snapshot they see, 0-4 steps in a random DAG writing distinct variables '
        'from the snapshot, 2-4 calls; each composite is run in its listed order and under 3 random permutations '
        'of the insertion order of processes, steps, flow, topology (and ports inside), initial_state; '
        'non-trivial = grammar: >=2 instants with >=2 processes invoked together; permutation: >=2 processes and '
        '>=3 rows and at least one permutation that differs from the listed order; distinct = distinct case spec')
PLAN = {'quick': {'n': 6000, 'min_cases': 500}, 'thorough': {'n': 80000, 'min_cases': 8000}}
REQUIRED_ORACLES = ['layer_same_snapshot', 'no_apply_between_invocations', 'same_snapshot_per_instant', 'same_snapshot_per_layer', 'snapshot_is_committed_state',
                    'permutation_invariant']
ANCHORS = ['vivarium.core.engine:Engine.run_for', 'vivarium.core.engine:Engine.run_steps',
           'vivarium.core.engine:_StepGraph.get_execution_layers', 'vivarium.core.engine:Engine._process_state',
           'vivarium.core.store:view_values']
ASSUMPTIONS = ['permutation invariance is asserted only for commuting updates (accumulate on integers, set to distinct variables)',
               'legacy derivers are not permuted (specified to run in declaration order)']


def gen(r, tier, i):
    if r.random() < 0.08:
        # steps of one layer inside compartments that are generated, divided and moved at run time: C10's
        # structural workload, judged here on "the steps of one layer are shown one state" only
        from vmon.checks import c10
        return {'class': 'structural', 'c10': c10.gen(r, tier, i)}
    if r.random() < 0.5:
        n = r.randint(2, 6)
        procs = [{'pid': pid, 'ts': {'kind': 'const', 'v': r.choice([0.5, 0.5, 1.0, 1.0, 1.5, 2.0, 0.25])},
                  'shared_acc': True, 'amount': pid + 1} for pid in range(n)]
        calls = sched.cap_events(r, procs, sched.gen_calls(r, 'dyadic', None, maxcalls=4), 'dyadic', None, cap=160)
        return {'class': 'grammar', 'procs': procs, 'calls': calls, 'nsteps': r.randint(0, 4), 't0': 0,
                'step_flow': r.choice(['layer', 'layer', 'none']), 'duck_step': r.random() < 0.25}
    n = r.randint(2, 5)
    ns = r.randint(0, 4)
    return {'class': 'perm',
            'procs': {'p%d' % k: r.choice([0.25, 0.5, 0.75, 1.0, 1.5]) for k in range(n)},
            'steps': list(range(ns)),
            'flow': {'s%d' % j: ['s%d' % k for k in range(j) if r.random() < 0.4] for j in range(ns)},
            'calls': [[r.choice([0.5, 1.0, 1.75, 2.5]), r.random() < 0.4] for _ in range(r.randint(1, 3))] + [[1.0, True]],
            'perm_seeds': [r.randrange(10 ** 6) for _ in range(3)],
            # two more processes on a numpy-array variable: one accumulates into it, the other hands the
            # array it was shown back as its update (the view must be a snapshot, not the live value)
            'arrays': r.choice([None, None, r.choice([0.5, 1.0])]),
            # a process that adds a child to a glob store and, in the same update, writes to a second
            # (branch) port; a census process reports how many children its glob view shows
            'census': r.choice([None, None, r.choice([0.5, 1.0])]),
            # a process whose first-listed port is a glob port wired through a sub-topology
            'feeder': r.choice([None, None, r.choice([0.5, 1.0])]),
            # a store declared with a branch-level _emit by one process, further variables in and below it by another
            'branch_emit': r.choice([None, None, r.choice([0.5, 1.0])]),
            # overlapping ports with update dictionaries that the process keeps and returns again
            'nester': r.choice([None, None, r.choice([0.5, 1.0])])}


def run_grammar(spec, V):
    from vmon.sensors import Mon, drive
    m = Mon()
    Mon.cur = m
    try:
        e = sched.build(spec)
        ok, exc = drive(e, m, spec['calls'], sched.budget_for(spec))
    finally:
        Mon.cur = None
    if not ok:
        V.check('no_exception', False, ('run raised', repr(exc)[:300]))
    committed = None          # ledger of the last emitted row
    group = []                # invocations since the last clock assignment / emit
    together = 0

    layers_seen = 0

    def close(group):
        nonlocal together, layers_seen
        # (zduck has no flow entry: it runs before the layer, alone, and its update is applied before the layer starts)
        steps = [g for g in group if g[0] == 'step' and g[3] != 'zduck']
        if spec.get('step_flow') == 'layer' and len(steps) >= 2:
            layers_seen += 1
            V.check('same_snapshot_per_layer', len({g[2] for g in steps}) == 1,
                    lambda: ('steps of one dependency layer saw different states at t=%r (an update was applied between their invocations)' % steps[0][1],
                             [(g[3], len(g[2])) for g in steps]))
        procs = [g for g in group if g[0] == 'process']
        if len(procs) >= 2:
            together += 1
            V.check('same_snapshot_per_instant', len({g[2] for g in procs}) == 1,
                    lambda: ('processes started at t=%r saw different states' % procs[0][1],
                             [(g[3], len(g[2])) for g in procs]))
    applied_in_group = False
    for ev in m.events:
        if ev[0] == 'emit' and ev[1] == 'history':
            committed = tuple(tuple(t) for t in ev[3].get('log', []))
            close(group)
            group = []
            applied_in_group = False
        elif ev[0] == 'set':
            close(group)
            group = []
            applied_in_group = False
        elif ev[0] == 'apply':
            if any(g[0] == 'process' for g in group):
                # an update applied after some process of this pass was invoked: only legitimate
                # once the pass is over (the next event group starts with a clock assignment)
                applied_in_group = True
        elif ev[0] == 'invoke':
            kind, tok, t, seen = ev[1], ev[2], ev[3], ev[4]
            if kind == 'process':
                V.check('no_apply_between_invocations', not applied_in_group,
                        lambda: ('an update was applied between two process invocations of one pass', tok, t))
                V.check('snapshot_is_committed_state', committed is not None and tuple(seen) == committed,
                        lambda: ('process %r at t=%r saw a ledger of %d tokens, the last committed row has %d' % (
                            tok[0], t, len(seen), len(committed or ()))))
                group.append(('process', t, tuple(seen), tok[0]))
            else:
                group.append(('step', t, tuple(seen), tok[0]))
    close(group)
    return {'instants_with_several': together, 'step_layers_with_several': layers_seen}, together >= 2, ['grammar', 'steps_' + str(spec.get('step_flow'))]


def shuffled(d, r):
    items = list(d.items())
    r.shuffle(items)
    return {k: (shuffled(v, r) if isinstance(v, dict) else v) for k, v in items}


def run_perm(spec, V):
    from vivarium.core.engine import Engine
    from vivarium.core.process import Process, Step

    class A(Process):
        def ports_schema(self):
            pid = self.parameters['pid']
            ports = {'S': {'acc': {'_default': 0, '_emit': True},
                           'own%d' % pid: {'_default': 0, '_emit': True, '_updater': 'set'}},
                     'T': {'sum2': {'_default': 0, '_emit': True}}}
            if self.parameters.get('flip'):
                ports = dict(reversed(list(ports.items())))
            return ports

        def calculate_timestep(self, states):
            return self.parameters['ts']

        def next_update(self, timestep, states):
            pid = self.parameters['pid']
            return {'S': {'acc': pid + 1 + states['S']['acc'] % 7, 'own%d' % pid: states['S']['acc']},
                    'T': {'sum2': states['T']['sum2'] % 5 + 1}}

    class St(Step):
        def ports_schema(self):
            return {'S': {'acc': {'_default': 0}},
                    'T': {'sum2': {'_default': 0},
                          'd%d' % self.parameters['pid']: {'_default': 0, '_updater': 'set', '_emit': True}}}

        def next_update(self, timestep, states):
            return {'T': {'d%d' % self.parameters['pid']: states['S']['acc'] * 2 + states['T']['sum2'], 'sum2': 1}}

    import numpy as np

    class Grow(Process):
        def ports_schema(self):
            return {'S': {'field': {'_default': np.array([0, 0]), '_emit': True}}}

        def calculate_timestep(self, states):
            return self.parameters['ts']

        def next_update(self, timestep, states):
            return {'S': {'field': np.array([1, 2])}}

    class Follow(Process):
        def ports_schema(self):
            return {'S': {'field': {'_default': np.array([0, 0])}},
                    'T': {'total': {'_default': np.array([0, 0]), '_emit': True}}}

        def calculate_timestep(self, states):
            return self.parameters['ts']

        def next_update(self, timestep, states):
            return {'T': {'total': states['S']['field']}}

    class Grower(Process):
        def ports_schema(self):
            return {'pool': {'*': {'_default': 0, '_emit': True}},
                    'book': {'ticks': {'_default': 0, '_emit': True}}}

        def calculate_timestep(self, states):
            return self.parameters['ts']

        def next_update(self, timestep, states):
            k = len(states['pool'])
            return {'pool': {'_add': [{'key': 'c%d' % k, 'state': k}]}, 'book': {'ticks': 1}}

    class Census(Process):
        def ports_schema(self):
            return {'pool': {'*': {'_default': 0}},
                    'report': {'seen': {'_default': 0, '_updater': 'set', '_emit': True}}}

        def calculate_timestep(self, states):
            return self.parameters['ts']

        def next_update(self, timestep, states):
            return {'report': {'seen': len(states['pool'])}}

    class Feeder(Process):
        """Moves stock to the agents of a glob port that is wired through a sub-topology."""
        def ports_schema(self):
            return {'agents': {'*': {'food': {'_default': 0, '_emit': True}}},
                    'stock': {'level': {'_default': 100, '_emit': True}}}

        def calculate_timestep(self, states):
            return self.parameters['ts']

        def next_update(self, timestep, states):
            return {'agents': {a: {'food': 1} for a in states['agents']}, 'stock': {'level': -len(states['agents'])}}

    class Nester(Process):
        """Two ports whose targets overlap two levels down (cell -> ncell, carrying the sub-store pool; pool ->
        ncell/pool); the update dictionaries are built once and returned at every call."""
        def ports_schema(self):
            return {'cell': {'count': {'_default': 0, '_emit': True}, 'pool': {'x': {'_default': 0, '_emit': True}}},
                    'pool': {'y': {'_default': 0, '_emit': True}}}

        def calculate_timestep(self, states):
            return self.parameters['ts']

        def next_update(self, timestep, states):
            if not hasattr(self, 'cached'):
                self.cached = {'cell': {'count': 1, 'pool': {'x': 101}}, 'pool': {'y': 1010}}
            return self.cached

    class Reporter(Process):
        """Declares its store with a branch-level _emit flag."""
        def ports_schema(self):
            return {'cell': {'_emit': True, 'mass': {'_default': 1}}}

        def calculate_timestep(self, states):
            return self.parameters['ts']

        def next_update(self, timestep, states):
            return {'cell': {'mass': 1}}

    class Interior(Process):
        """Declares further variables in and below the reporter's store, without flags of their own."""
        def ports_schema(self):
            return {'cell': {'glucose': {'_default': 0}}, 'internal': {'c': {'_default': 0}}, 'leaf': {'_default': 7}}

        def calculate_timestep(self, states):
            return self.parameters['ts']

        def next_update(self, timestep, states):
            return {'cell': {'glucose': 1}, 'internal': {'c': 1}}

    def once(perm_seed):
        r = random.Random(perm_seed) if perm_seed is not None else None
        procs = {k: A({'pid': int(k[1:]), 'ts': ts, 'flip': bool(r and r.random() < 0.5)}) for k, ts in spec['procs'].items()}
        if spec.get('arrays'):
            procs['grow'] = Grow({'ts': spec['arrays']})
            procs['follow'] = Follow({'ts': spec['arrays']})
        if spec.get('census'):
            procs['grower'] = Grower({'ts': spec['census']})
            procs['census'] = Census({'ts': spec['census']})
        if spec.get('feeder'):
            procs['feeder'] = Feeder({'ts': spec['feeder']})
        if spec.get('nester'):
            procs['nester'] = Nester({'ts': spec['nester']})
        if spec.get('branch_emit'):
            procs['reporter'] = Reporter({'ts': spec['branch_emit']})
            procs['interior'] = Interior({'ts': spec['branch_emit']})
        steps = {'s%d' % j: St({'pid': j}) for j in spec['steps']}
        flow = {k: [(d,) for d in deps] for k, deps in spec['flow'].items()}
        topo = {k: ({'S': ('s',)} if k == 'grow' else {'S': ('s',), 'T': ('t',)}) for k in list(procs) + list(steps)}
        if spec.get('census'):
            topo['grower'] = {'pool': ('pool',), 'book': ('u', 'book')}
            topo['census'] = {'pool': ('pool',), 'report': ('report',)}
        init = {'s': {'acc': 3}, 't': {'sum2': 1}}
        if spec.get('nester'):
            topo['nester'] = {'cell': ('ncell',), 'pool': ('ncell', 'pool')}
        if spec.get('branch_emit'):
            topo['reporter'] = {'cell': ('bcell',)}
            topo['interior'] = {'cell': ('bcell',), 'internal': ('bcell', 'internal'), 'leaf': ('bcell', 'lv')}
        if spec.get('feeder'):
            topo['feeder'] = {'agents': {'_path': ('fed',), '*': {'food': ('food',)}}, 'stock': ('u', 'stock')}
            init['fed'] = {'a': {'food': 0}, 'b': {'food': 0}}
        if r is not None:
            procs, steps, flow, topo, init = (shuffled(x, r) for x in (procs, steps, flow, topo, init))
            for k in flow:
                r.shuffle(flow[k])
        order = (list(procs), list(steps), list(topo))
        e = Engine(processes=procs, steps=steps or None, flow=flow or None, topology=topo, initial_state=init,
                   display_info=False)
        for iv, f in spec['calls']:
            e.run_for(iv, force_complete=f)
        return e.emitter.get_data(), order
    try:
        ref, order0 = once(None)
    except Exception as ex:
        import traceback
        V.check('no_exception', False, ('reference run raised', type(ex).__name__, str(ex)[:200], traceback.format_exc()[-300:]))
        return {}, False, ['perm']
    differs = 0
    for ps in spec['perm_seeds']:
        try:
            out, order = once(ps)
        except Exception as ex:
            V.check('no_exception', False, ('permuted run raised', type(ex).__name__, str(ex)[:200]))
            continue
        differs += order != order0
        if spec.get('census'):
            V.check('snapshot_is_committed_state', perm_ok(out) is None,
                    lambda: ('census process was shown a stale glob view', perm_ok(out)))
        bad = [t for t in sorted(set(ref) | set(out)) if ref.get(t) != out.get(t)]
        V.check('permutation_invariant', not bad,
                lambda: ('trajectory differs under a permutation of the listing order, first at t=%r' % bad[0],
                         ref.get(bad[0]), out.get(bad[0]), order))
    return {'rows': len(ref), 'permutations_differing': differs}, len(spec['procs']) >= 2 and len(ref) >= 3 and differs >= 1, ['perm']


def perm_ok(data):
    """The census process and the grower have one timestep: the census started at the instant of row k saw
    the pool of row k, and that count is in row k+1 (None = fine)."""
    ts = sorted(data)
    for a, b in zip(ts, ts[1:]):
        if data[b].get('report', {}).get('seen') not in (len(data[a].get('pool', {})), data[a].get('report', {}).get('seen')):
            return (a, b, data[a].get('pool'), data[b].get('report'))
    return None


def run(spec):
    if spec['class'] == 'structural':
        from vmon.checks import c10
        from vmon.util import harvest
        return harvest(c10.run(spec['c10']), ('layer_same_snapshot', 'no_exception'), ['structural'])
    V = Viol()
    if spec['class'] == 'grammar':
        stats, nt, classes = run_grammar(spec, V)
    else:
        stats, nt, classes = run_perm(spec, V)
    return {'viol': list(V), 'evals': V.evals, 'stats': stats, 'nontrivial': bool(nt), 'classes': classes,
            'summary': dict(stats, cls=spec['class'])}


MANIFEST = {
    'text': 'Exploration: (grammar) schedules with coincident interval ends - the ordered event log (invocations with the ledger each one saw, applications, clock assignments, emitted rows) is checked for "no application inside a pass", equal snapshots per instant and snapshot == last committed row; (permutation) each generated composite with snapshot-dependent commuting updates is run in its listed order and under three random permutations of every dictionary the user supplies - the emitted trajectories must be identical.',
    'note': 'Commuting updates only (accumulate on ints, set to distinct variables); derivers not permuted; equal views inside a step layer are checked by C05.',
    'technique': 'runtime monitoring: ordered event-log grammar check + metamorphic (permutation) differential runs',
}
