"""C14 - serialization round-trips every emittable value and yields plain JSON.

Monitor shape: icontract postconditions on the real serialize_value /
deserialize_value (plain-JSON result, idempotence) evaluated on every call,
including the calls RAMEmitter makes, plus a typed reference model of the
expected round-trip result for generated value trees."""
import copy
import math
import struct

from vmon.util import Viol
from vmon import contracts

ID = 'C14'
LEVEL = 'exploration'
RULE = ('value trees (depth <=4, thorough <=5) built from JSON recipes over ints, finite floats '
        '(random bit patterns and edge values), strings, booleans, None, lists, tuples, sets, '
        'string-keyed dicts, numpy scalars/arrays, quantities (finite, nan, +-inf, zero, negative, '
        'huge, tiny, integer < 2^53 magnitudes; simple, prefixed and compound units drawn from the '
        'registry), bare units, processes, functions; plus rejection cases (non-string keys, '
        'numpy-string keys, unsupported objects); a third of the trees also travel through a real '
        'RAMEmitter; non-trivial = tree with >=3 nodes containing a quantity/unit/numpy/set/tuple '
        'value or a rejection case; distinct = distinct recipe')
PLAN = {'quick': {'n': 40000, 'min_cases': 2000}, 'thorough': {'n': 600000, 'min_cases': 50000}}
REQUIRED_ORACLES = ['roundtrip', 'serialized_kept', 'plain_json', 'idempotent', 'rejects', 'contract.serialize.plain_json',
                    'emitter_roundtrip']
ANCHORS = ['vivarium.core.serialize:serialize_value', 'vivarium.core.serialize:deserialize_value',
           'vivarium.core.serialize:UnitsSerializer.deserialize',
           'vivarium.core.serialize:UnitsSerializer.serialize',
           'vivarium.core.serialize:QuantitySerializer.serialize',
           'vivarium.core.serialize:SequenceDeserializer.deserialize',
           'vivarium.core.serialize:DictDeserializer.deserialize',
           'vivarium.core.emitter:RAMEmitter.emit']
ASSUMPTIONS = ['plain floats are finite (JSON has no inf/nan)',
               'strings of the reserved forms !units[...] / !...Serializer[...] are not generated as plain data',
               'integer magnitudes stay below 2^53; plain ints within 64 bits']

UNIT_NAMES = ['femtogram', 'picogram', 'nanogram', 'gram', 'kilogram', 'millimolar', 'micromolar',
              'micrometer', 'nanometer', 'meter', 'second', 'millisecond', 'nanosecond', 'hour',
              'liter', 'femtoliter', 'mole', 'millimole', 'nanomole', 'kelvin', 'count', 'newton',
              'nanonewton', 'pascal', 'joule', 'dimensionless', 'radian', 'ampere', 'nanoampere']
EDGE_FLOATS = [0.0, -0.0, 1e300, 1e-300, -1e300, 5e-324, 1.7976931348623157e308, 0.1, 1 / 3,
               -2.5, 1e16, 123456789.125, 2.2250738585072014e-308]
STRINGS = ['', 'abc', 'a]b[', 'units[1 fg]', '!unit', '1 fg', 'é', 'nan', 'nanometer',
           '!units', '[x]', 'Serializer[y]', ' ', 'inf',
           # plain strings that merely START with the form of a serialized quantity
           '!units[5 femtogram] (measured)', '!units[1 fg]\n', '!units[2 fg] ', 'x!units[1 fg]']


def _unit_recipe(r):
    k = r.random()
    names = r.sample(UNIT_NAMES, r.choice([1, 1, 1, 2, 3]))
    if k < 0.5 and len(names) == 1:
        return [[names[0], 1]]
    return [[n, r.choice([1, 1, -1, 2, -2, 3, -3])] for n in names]


def _float_recipe(r):
    if r.random() < 0.25:
        return {'t': 'f', 'x': r.choice(EDGE_FLOATS)}
    while True:
        x = struct.unpack('d', struct.pack('Q', r.getrandbits(64)))[0]
        if x == x and abs(x) != math.inf:
            return {'t': 'fb', 'b': struct.unpack('Q', struct.pack('d', x))[0]}


def recipe(r, d, maxd):
    k = r.random()
    if d < maxd and k < 0.13:
        # (c: plain list or a subclass of it)
        return {'t': 'list', 'v': [recipe(r, d + 1, maxd) for _ in range(r.randint(0, 3))], 'c': r.choice([0, 0, 0, 1])}
    if d < maxd and k < 0.20:
        return {'t': 'tuple', 'v': [recipe(r, d + 1, maxd) for _ in range(r.randint(0, 3))]}
    if d < maxd and k < 0.40:
        keys = r.sample(['a', 'b', 'c', 'k1', '', 'time', '_x', '!units[k]'], r.randint(0, 3))
        # (c: plain dict, collections.OrderedDict or collections.defaultdict)
        return {'t': 'dict', 'v': [[key, recipe(r, d + 1, maxd)] for key in keys], 'c': r.choice([0, 0, 0, 1, 2])}
    if k < 0.44:
        # (c: plain set or one of two subclasses of it - found by the serializers' subclass search)
        if r.random() < 0.3:
            # members that cannot be ordered against each other
            pool = [1, 2.5, 'a', 'b', None, True, ('t', 1), ('t', 'x')]
            return {'t': 'set', 'mixed': r.sample(range(len(pool)), r.randint(2, 4)), 'v': [], 'c': 0}
        return {'t': 'set', 'v': sorted({r.randint(0, 5) for _ in range(r.randint(0, 3))}), 'c': r.choice([0, 0, 1, 2])}
    if k < 0.52:
        return {'t': 'i', 'x': r.choice([0, 1, -1, 2 ** 53, -2 ** 53, 2 ** 62, r.randint(-10 ** 6, 10 ** 6)])}
    if k < 0.60:
        return _float_recipe(r)
    if k < 0.66:
        return {'t': 's', 'x': r.choice(STRINGS)}
    if k < 0.70:
        return {'t': 'c', 'x': r.choice([None, True, False])}
    if k < 0.76:
        return {'t': 'np', 'k': r.choice(['int64', 'float64', 'arange', 'ones22', 'bool', 'strarr', 'float32', 'empty',
                                          'subA', 'subB', 'masked', 'zerod_f', 'zerod_i', 'masked_m', 'strided', 'npstr']),
                'x': r.randint(-10, 10)}
    if k < 0.93:
        m = r.choice(['f', 'f', 'i', 'nan', 'inf', '-inf', 'z', 'neg', 'arr', 'arr2'])
        out = {'t': 'q', 'm': m, 'u': _unit_recipe(r)}
        if m == 'f':
            out['x'] = _float_recipe(r)
        elif m == 'i':
            out['x'] = r.choice([1, 7, 2 ** 53 - 1, -(2 ** 53 - 1), r.randint(-10 ** 9, 10 ** 9)])
        elif m == 'neg':
            out['x'] = -r.randint(1, 1000) / 8
        elif m == 'arr':
            out['x'] = [r.randint(-4, 4) / 4 for _ in range(r.randint(1, 3))]
        elif m == 'arr2':
            ncol = r.randint(1, 3)
            out['x'] = [[r.randint(-4, 4) / 4 for _ in range(ncol)] for _ in range(r.randint(1, 3))]
        return out
    if k < 0.97:
        return {'t': 'u', 'u': _unit_recipe(r)}
    if k < 0.985:
        return {'t': 'proc', 'x': r.randint(0, 9)}
    return {'t': 'func'}


def bad_recipe(r):
    kind = r.choice(['intkey', 'npkey', 'tuplekey', 'object', 'complex', 'bytes', 'deep_intkey', 'deep_object'])
    if r.random() < 0.05:
        # known finding F6: types outside the supported list that orjson handles by itself
        kind = r.choice(['datetime', 'uuid', 'enum', 'dataclass'])
    return {'t': 'bad', 'k': kind, 'inner': recipe(r, 2, 3)}


LOOKALIKES = ['!units[5 fg]', '!units[1 femtogram]', '!units[hello]', '!units[nan]', '!units[2.5 / second]']


def gen(r, tier, i):
    k = r.random()
    if k < 0.004:
        # known finding F4: a plain string that has the form of a serialized quantity
        return {'kind': 'lookalike', 'value': {'t': 's', 'x': r.choice(LOOKALIKES)}, 'wrap': r.choice(['', 'dict', 'list'])}
    if k < 0.008:
        # known finding F5: quantities in offset units
        return {'kind': 'offset', 'value': {'t': 'c', 'x': None}, 'unit': r.choice(['degC', 'degF']), 'mag': r.choice([1, 0, -3.5, 25.0])}
    maxd = 4 if tier == 'quick' else 5
    if r.random() < 0.12:
        return {'kind': 'reject', 'value': bad_recipe(r)}
    top = {'t': 'dict', 'v': [[k, recipe(r, 1, maxd)] for k in r.sample(['a', 'b', 'c', 'd'], r.randint(1, 3))]} \
        if r.random() < 0.6 else recipe(r, 0, maxd)
    return {'kind': 'emitter' if top['t'] == 'dict' and r.random() < 0.55 else 'roundtrip', 'value': top}


# ---------------------------------------------------------------------------

def _some_function(x):
    return x


class _ListA(list):
    pass


class _Unsupported:
    pass


import enum as _enum
import dataclasses as _dc


class _Color(_enum.Enum):
    RED = 1


@_dc.dataclass
class _Point:
    x: int
    y: int


class _SetA(set):
    pass


class _SetB(set):
    pass


_ARR = []


def _arr_classes(np):
    if not _ARR:
        class ArrA(np.ndarray):
            pass

        class ArrB(np.ndarray):
            pass
        _ARR.extend([ArrA, ArrB])
    return _ARR


def build(rc, env):
    units, np = env['units'], env['np']
    t = rc['t']
    if t == 'list':
        return [list, _ListA][rc.get('c', 0)]([build(v, env) for v in rc['v']])
    if t == 'tuple':
        return tuple(build(v, env) for v in rc['v'])
    if t == 'dict':
        import collections
        d = {k: build(v, env) for k, v in rc['v']}
        return [dict, collections.OrderedDict, lambda x: collections.defaultdict(int, x)][rc.get('c', 0)](d)
    if t == 'set':
        if rc.get('mixed'):
            pool = [1, 2.5, 'a', 'b', None, True, ('t', 1), ('t', 'x')]
            return {pool[k] for k in rc['mixed']}
        return [set, _SetA, _SetB][rc.get('c', 0)](rc['v'])
    if t in ('i', 's', 'c', 'f'):
        return rc['x']
    if t == 'fb':
        return struct.unpack('d', struct.pack('Q', rc['b']))[0]
    if t == 'np':
        k, x = rc['k'], rc['x']
        return {'int64': lambda: np.int64(x), 'float64': lambda: np.float64(x / 4), 'float32': lambda: np.float32(x / 4),
                'arange': lambda: np.arange(abs(x) % 4), 'ones22': lambda: np.ones((2, 2)) * x,
                'bool': lambda: np.bool_(x > 0), 'strarr': lambda: np.array(['x', 'y']),
                'empty': lambda: np.array([]),
                'subA': lambda: np.arange(abs(x) % 4).view(_arr_classes(np)[0]),
                'subB': lambda: (np.ones((2, 2)) * x).view(_arr_classes(np)[1]),
                'masked': lambda: np.ma.masked_array(np.arange(abs(x) % 4)),
                'zerod_f': lambda: np.array(x / 4),                 # zero-dimensional arrays
                'zerod_i': lambda: np.array(x),
                'masked_m': lambda: np.ma.masked_array([x, 1, 2], mask=[0, 1, 0]),
                'strided': lambda: np.arange(8)[::2] * x,
                'npstr': lambda: np.str_('s%d' % x)}[k]()
    if t in ('q', 'u'):
        u = None
        for name, power in rc['u']:
            f = getattr(units, name) ** power
            u = f if u is None else u * f
        if t == 'u':
            return u if not hasattr(u, 'magnitude') else u.units
        m = rc['m']
        if m in ('f',):
            mag = build(rc['x'], env)
        elif m in ('i', 'neg'):
            mag = rc['x']
        elif m == 'nan':
            mag = math.nan
        elif m == 'inf':
            mag = math.inf
        elif m == '-inf':
            mag = -math.inf
        elif m == 'z':
            mag = 0
        else:
            mag = np.array(rc['x'])
        return mag * u
    if t == 'proc':
        return env['Proc']({'x': rc['x']})
    if t == 'func':
        return _some_function
    if t == 'bad':
        inner = build(rc['inner'], env)
        k = rc['k']
        if k == 'intkey':
            return {1: inner}
        if k == 'npkey':
            return {np.str_('a'): inner}
        if k == 'tuplekey':
            return {('a', 'b'): inner}
        if k == 'object':
            return _Unsupported()
        if k == 'complex':
            return [inner, complex(1, 2)]
        if k == 'bytes':
            return {'a': b'xyz'}
        if k == 'deep_intkey':
            return {'a': [inner, {'b': {2: inner}}]}
        if k == 'deep_object':
            return {'a': {'b': [_Unsupported()]}}
        if k == 'datetime':
            import datetime
            return {'v': datetime.datetime(2020, 1, 1)}
        if k == 'uuid':
            import uuid
            return {'v': uuid.UUID(int=7)}
        if k == 'enum':
            return {'v': _Color.RED}
        if k == 'dataclass':
            return {'v': _Point(1, 2)}
    raise ValueError(rc)


def json_plain(x):
    if x is None or isinstance(x, (bool, int, float, str)):
        return type(x) in (type(None), bool, int, float, str)
    if type(x) is list:
        return all(json_plain(i) for i in x)
    if type(x) is dict:
        return all(type(k) is str and json_plain(v) for k, v in x.items())
    return False


def _skey(v):
    return (type(v).__name__, repr(v))


def expect(x, env):
    """The tree deserialize_value(serialize_value(x)) has to equal."""
    Quantity, Unit, np = env['Quantity'], env['Unit'], env['np']
    if isinstance(x, Quantity):
        if isinstance(x.magnitude, np.ndarray):
            return [expect(v, env) for v in x]
        return ('Q', x)
    if isinstance(x, Unit):
        return ('Q', 1 * x)
    if isinstance(x, env['Process']):
        return ('STR', '!ProcessSerializer[')
    if callable(x):
        return ('STR', '!FunctionSerializer[')
    if isinstance(x, (list, tuple)):
        return [expect(i, env) for i in x]
    if isinstance(x, set):
        return ('SET', sorted((expect(i, env) for i in x), key=_skey))
    if isinstance(x, dict):
        return {k: expect(v, env) for k, v in x.items()}
    if isinstance(x, np.ndarray):
        return x.tolist()
    if isinstance(x, np.generic):
        return x.item()
    return x


def same(e, d, env):
    Quantity = env['Quantity']
    if isinstance(e, tuple) and e and e[0] == 'Q':
        q = e[1]
        if not isinstance(d, Quantity):
            return False
        if d.units != q.units:
            return False
        a, b = q.magnitude, d.magnitude
        if isinstance(a, float) and a != a:
            return isinstance(b, float) and b != b
        if isinstance(a, float) or isinstance(b, float):
            return float(a) == float(b) and (a != 0 or math.copysign(1, float(a)) == math.copysign(1, float(b)))
        return a == b
    if isinstance(e, tuple) and e and e[0] == 'STR':
        return isinstance(d, str) and d.startswith(e[1])
    if isinstance(e, tuple) and e and e[0] == 'SET':
        return isinstance(d, list) and sorted(d, key=_skey) == e[1]
    if isinstance(e, list):
        return isinstance(d, list) and len(e) == len(d) and all(same(x, y, env) for x, y in zip(e, d))
    if isinstance(e, dict):
        return isinstance(d, dict) and e.keys() == d.keys() and all(same(e[k], d[k], env) for k in e)
    if isinstance(e, float):
        return isinstance(d, float) and struct.pack('d', e) == struct.pack('d', d)
    if isinstance(e, bool) or isinstance(d, bool):
        return type(e) is type(d) and e == d
    return e == d and type(e) is type(d)


def count_nodes(rc):
    if rc['t'] in ('list', 'tuple'):
        return 1 + sum(count_nodes(v) for v in rc['v'])
    if rc['t'] == 'dict':
        return 1 + sum(count_nodes(v) for _, v in rc['v'])
    return 1


def has_rich(rc):
    if rc['t'] in ('list', 'tuple'):
        return rc['t'] == 'tuple' or any(has_rich(v) for v in rc['v'])
    if rc['t'] == 'dict':
        return any(has_rich(v) for _, v in rc['v'])
    return rc['t'] in ('q', 'u', 'np', 'set', 'proc', 'func')


def classify_q(rc, out):
    if rc['t'] in ('list', 'tuple'):
        for v in rc['v']:
            classify_q(v, out)
    elif rc['t'] == 'dict':
        for _, v in rc['v']:
            classify_q(v, out)
    elif rc['t'] == 'q':
        out.add('q_' + rc['m'])
        out.add('unit_compound' if len(rc['u']) > 1 or rc['u'][0][1] != 1 else 'unit_simple')
    else:
        out.add('t_' + rc['t'])


_env = {}


def plain_json(result):
    return contracts.SINK.record('contract.serialize.plain_json', json_plain(result),
                                 lambda: ('serialize_value returned non-JSON data', repr(result)[:300]))


def deser_keeps_plain(value, result):
    # plain scalars come back unchanged (strings of reserved form excepted)
    if value is None or isinstance(value, (bool, int, float)):
        ok = type(result) is type(value) and (result == value or value != value)
        return contracts.SINK.record('contract.deserialize.plain_scalar', ok,
                                     lambda: ('deserialize_value changed a plain scalar', repr(value), repr(result)))
    return True


def setup():
    import vivarium  # noqa  (registers serializers)
    import numpy as np
    from vivarium.core import serialize as S
    from vivarium.core.process import Process
    from vivarium.library.units import units, Quantity
    from pint import Unit

    class Proc(Process):
        def ports_schema(self):
            return {}

        def next_update(self, timestep, states):
            return {}
    _env.update(units=units, np=np, Quantity=Quantity, Unit=type(units.fg), Process=Process, Proc=Proc)
    contracts.install('vivarium.core.serialize', 'serialize_value', posts=[plain_json])
    contracts.install('vivarium.core.serialize', 'deserialize_value', posts=[deser_keeps_plain])


def run(spec):
    from vivarium.core import serialize as S
    from vivarium.core.emitter import RAMEmitter
    env = _env
    V = Viol()
    contracts.SINK.reset()
    rc = spec['value']
    x = build(rc, env)
    classes = set()
    if spec['kind'] in ('lookalike', 'offset'):
        if spec['kind'] == 'offset':
            x = env['units'].Quantity(spec['mag'], getattr(env['units'], spec['unit']))
        elif spec.get('wrap') == 'dict':
            x = {'k': x}
        elif spec.get('wrap') == 'list':
            x = [x, 1]
        try:
            d = S.deserialize_value(S.serialize_value(x))
            if spec['kind'] == 'offset':
                ok = hasattr(d, 'units') and d.units == x.units and d.magnitude == x.magnitude
            else:
                ok = type(d) is type(x) and d == x
            detail = ('deserialize(serialize(x)) != x', repr(x), repr(d))
        except Exception as e:
            ok, detail = False, ('round trip raised', repr(x), type(e).__name__, str(e)[:120])
        contracts.SINK.reset()          # (the contracts judge the same calls: one finding, one label)
        V.check('roundtrip', ok, detail,
                mechanism='string-looks-like-serialized-quantity' if spec['kind'] == 'lookalike' else 'offset-unit-quantity')
        return {'viol': list(V), 'evals': V.evals, 'nontrivial': True, 'classes': [spec['kind']], 'summary': {'kind': spec['kind']}}
    if spec['kind'] == 'reject':
        try:
            out = S.serialize_value(x)
            V.check('rejects', False, ('accepted an unsupported value / non-string key', rc['k'], repr(out)[:200]),
                    mechanism='orjson-native-type-accepted' if rc['k'] in ('datetime', 'uuid', 'enum', 'dataclass') else None)
        except TypeError:
            V.check('rejects', True)
        except Exception as e:
            V.check('rejects', False, ('raised %s instead of TypeError' % type(e).__name__, rc['k'], str(e)[:200]))
        classes.add('reject_' + rc['k'])
    else:
        classify_q(rc, classes)
        try:
            s = S.serialize_value(x)
        except Exception as e:
            V.check('plain_json', False, ('serialize_value raised', type(e).__name__, str(e)[:200], repr(x)[:300]))
            s = None
        if s is not None or x is None:
            V.check('plain_json', json_plain(s), ('not plain JSON', repr(s)[:300]))
            try:
                s2 = S.serialize_value(s)
                V.check('idempotent', _eqjson(s2, s),
                        ('serialize(serialize(x)) != serialize(x)', repr(s)[:200], repr(s2)[:200]))
            except Exception as e:
                V.check('idempotent', False, ('second serialization raised', type(e).__name__, str(e)[:200]))
            try:
                s_before = copy.deepcopy(s)
                d = S.deserialize_value(s)
                V.check('roundtrip', same(expect(x, env), d, env),
                        lambda: ('deserialize(serialize(x)) != x', repr(x)[:300], repr(s)[:300], repr(d)[:300]),
                        mechanism=None)
                # the serialized tree is still the plain JSON data it was (it can be deserialized or stored again)
                V.check('serialized_kept', json_plain(s) and _eqjson(s, s_before),
                        lambda: ('deserialize_value changed the serialized tree it was given', repr(s_before)[:300], repr(s)[:300]))
            except Exception as e:
                V.check('roundtrip', False, ('deserialize_value raised', type(e).__name__, str(e)[:160],
                                             repr(s)[:300]))
            if spec['kind'] == 'emitter' and isinstance(x, dict):
                em = RAMEmitter({})
                row = dict(x)
                row.pop('time', None)
                try:
                    keys = list(row)
                    if len(keys) >= 2 and len(keys) % 2 == 0:
                        # the row reaches the emitter in two pieces at one time (several emits per time point)
                        classes.add('emitter.split_row')
                        em.emit({'table': 'history', 'data': dict({k: row[k] for k in keys[:len(keys) // 2]}, time=1.5)})
                        em.emit({'table': 'history', 'data': dict({k: row[k] for k in keys[len(keys) // 2:]}, time=1.5)})
                    else:
                        em.emit({'table': 'history', 'data': dict(row, time=1.5)})
                    raw = em.get_data()
                    V.check('emitter_plain', json_plain(raw[1.5]), ('RAMEmitter stored non-JSON data', repr(raw)[:300]))
                    des = em.get_data_deserialized()
                    V.check('emitter_roundtrip', same(expect(row, env), des[1.5], env),
                            lambda: ('get_data_deserialized != emitted row', repr(row)[:300], repr(des)[:300]))
                    raw2 = em.get_data()
                    V.check('emitter_plain', json_plain(raw2[1.5]),
                            lambda: ('RAMEmitter history is no longer plain JSON after get_data_deserialized()', repr(raw2)[:300]))
                    des2 = em.get_data_deserialized()
                    V.check('emitter_roundtrip', same(expect(row, env), des2[1.5], env),
                            lambda: ('second get_data_deserialized != emitted row', repr(row)[:300], repr(des2)[:300]))
                except Exception as e:
                    V.check('emitter_roundtrip', False, ('emitter path raised', type(e).__name__, str(e)[:200],
                                                         repr(row)[:300]))
    viol = list(V) + contracts.SINK.viol
    evals = dict(V.evals)
    for k, n in contracts.SINK.evals.items():
        evals[k] = evals.get(k, 0) + n
    nontrivial = spec['kind'] == 'reject' or (count_nodes(rc) >= 3 and has_rich(rc))
    return {'viol': viol, 'evals': evals, 'stats': {'nodes': count_nodes(rc)}, 'nontrivial': nontrivial,
            'classes': sorted(classes), 'summary': {'kind': spec['kind'], 'oracles': sorted(evals)}}


def _eqjson(a, b):
    """Equality of plain JSON data that treats nan-free floats bitwise."""
    if type(a) is not type(b):
        return False
    if isinstance(a, list):
        return len(a) == len(b) and all(_eqjson(x, y) for x, y in zip(a, b))
    if isinstance(a, dict):
        return a.keys() == b.keys() and all(_eqjson(a[k], b[k]) for k in a)
    return a == b


MANIFEST = {
    'text': 'Exploration: generated value trees over every supported type (including hostile float bit patterns, non-finite quantity magnitudes, prefixed and compound units, rejection cases) go through the real serialize_value / deserialize_value and a real RAMEmitter; icontract postconditions judge every call, a typed reference model judges the round trip.',
    'note': 'Trusts the expected-value model in checks/c14.py and pint equality of units; plain floats finite; reserved-form strings not generated as plain data.',
    'technique': 'runtime monitoring: icontract postconditions on every serializer call + round-trip reference model over generated value trees',
}
