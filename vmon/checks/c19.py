"""C19 - timeline events fire exactly once, on time, whatever the listing order.

Monitor shape: trajectory of the driven variables (recorded through the real
RAMEmitter, one row per tick) compared with an executable timeline model; a
step bumps every driven variable each phase so that a lost, late or repeated
firing changes the trajectory."""
import copy
import itertools

from vmon.util import Viol

ID = 'C19'
LEVEL = 'exploration'
RULE = ('timelines of 1-5 events (thorough: 1-6) over times {0,.5,1,1.5,2,2.5,3,5} with duplicate times and '
        'overlapping variables (2 ports, 4 variables), random listing order, timeline timestep in '
        '{0.5,1,2}, one update() of length 4, 6 or 8 or 2-4 update() calls of lengths {0.5,...,4} that cut ticks short, TimelineProcess used directly or through add_timeline (with '
        'and without path overrides), other process present or not; the first 2000 quick cases enumerate '
        'all permutations of fixed small timelines; non-trivial = >=2 events and (unsorted listing or '
        'duplicate time or >=2 events due in one tick); distinct = distinct case spec')
PLAN = {'quick': {'n': 15000, 'min_cases': 800}, 'thorough': {'n': 150000, 'min_cases': 15000}}
REQUIRED_ORACLES = ['trajectory']
ANCHORS = ['vivarium.processes.timeline:TimelineProcess.initialize_timeline',
           'vivarium.processes.timeline:TimelineProcess.next_update',
           'vivarium.processes.timeline:TimelineProcess.ports_schema',
           'vivarium.core.composition:add_timeline']
ASSUMPTIONS = ['dyadic times/timesteps (float arithmetic exact)',
               'event values are scalars (ints/strings)']

TIMES = [0, 0.5, 1, 1.5, 2, 2.5, 3, 5]
VARS = [['s', 'a'], ['s', 'b'], ['s', 'c'], ['u', 'x'], ['s', 'grp', 'd']]

_BASE = [
    [[0, [[['s', 'a'], 11]]], [1, [[['s', 'a'], 12]]], [2, [[['s', 'b'], 13]]]],
    [[1, [[['s', 'a'], 21]]], [1, [[['s', 'b'], 22]]], [0.5, [[['s', 'a'], 23]]], [5, [[['u', 'x'], 24]]]],
    [[2, [[['s', 'a'], 31]]], [1.5, [[['s', 'a'], 32]]], [1, [[['s', 'a'], 33]]], [0, [[['s', 'a'], 34]]]],
    [[0, [[['s', 'a'], 41], [['u', 'x'], 42]]], [0, [[['s', 'a'], 43]]], [3, [[['s', 'c'], 44]]], [3, [[['s', 'c'], 45]]]],
]
_ENUM = []
for _b in _BASE:
    for _perm in itertools.permutations(range(len(_b))):
        for _ts in (0.5, 1, 2):
            _ENUM.append(([_b[j] for j in _perm], _ts))


def gen(r, tier, i):
    if i < len(_ENUM):
        ev, ts = _ENUM[i]
        return {'events': copy.deepcopy(ev), 'ts': ts, 'run': 6, 'entry': 'direct', 'other': False}
    if r.random() < 0.05:
        ev = [[r.choice(TIMES), r.choice(['base', 'base', r.randint(1, 9)])] for _ in range(r.randint(2, 4))]
        return {'family': 'field', 'base': [10.0, 20.0], 'events': ev, 'ts': r.choice([0.5, 1]), 'cts': r.choice([0.5, 1, 2]),
                'runs': [r.choice([2, 3, 4]) for _ in range(r.randint(1, 2))]}
    k = r.randint(1, 5 if tier == 'quick' else 6)
    events = []
    for j in range(k):
        nv = r.choice([1, 1, 2])
        vs = r.sample(VARS, nv)
        def value(j):
            k = r.random()
            if k < 0.15:
                return r.choice([0, 0.0, False, ''])      # switching something off: falsy values are values too
            return 100 * (j + 1) + r.randint(0, 9) if k < 0.85 else 'v%d' % j
        events.append([r.choice(TIMES), [[v, value(j)] for v in vs]])
    share = []
    if len(events) >= 2 and r.random() < 0.35:
        # on/off protocols: one change-dict object listed at several times
        i_src = r.randrange(len(events))
        for j in range(len(events)):
            if j != i_src and r.random() < 0.5:
                events[j][1] = copy.deepcopy(events[i_src][1])
                share.append([i_src, j])
    # the run is one update() or several, whose lengths need not be multiples of the timeline's timestep
    # (the last tick of a call is then cut short, and the next call starts a new tick)
    runs = [r.choice([0.5, 1, 1.5, 2.5, 3, 4]) for _ in range(r.randint(2, 4))] if r.random() < 0.35 else None
    return {'events': events, 'share': share, 'ts': r.choice([0.5, 1, 2]), 'run': r.choice([4, 6, 8]), 'runs': runs,
            'again': r.random() < 0.3, 'declared_acc': r.random() < 0.4,
            'entry': r.choice(['direct', 'add_timeline', 'add_timeline_paths', 'experiment']), 'other': r.random() < 0.4}


def model(events, ts, run, driven):
    """R5: an event with time t fires at the first tick c >= t of the timeline
    process; values visible one timestep later; several events firing in one
    tick apply in time order, ties in listing order; a step bumps ints by 1."""
    vals = {v: 0 for v in driven}

    def bump():
        for v in vals:
            if isinstance(vals[v], int):
                vals[v] += 1
    bump()
    out = {0.0: dict(vals)}
    fired = set()
    c = 0.0
    for iv in (run if isinstance(run, list) else [run]):
        end = c + iv
        while c < end:
            due = [j for j, (t, _) in enumerate(events) if t <= c and j not in fired]
            due.sort(key=lambda j: (events[j][0], j))
            for j in due:
                fired.add(j)
                for var, x in events[j][1]:
                    vals[tuple(var)] = x
            bump()
            c = min(c + ts, end)
            out[c] = dict(vals)
    return out


def run_field(spec):
    """Array-valued events: a baseline array object listed in several events (reset protocols) while another
    process accumulates on the variable. The events must set the variable to the value given in the timeline -
    the run with one shared array object equals the run with an independent copy per event, and the arrays the
    caller listed are unchanged afterwards."""
    import numpy as np
    from vivarium.core.engine import Engine
    from vivarium.core.process import Process
    from vivarium.processes.timeline import TimelineProcess
    V = Viol()

    class Consumer(Process):
        def ports_schema(self):
            return {'f': {'glc': {'_default': np.array([0.0, 0.0]), '_emit': True}}}

        def calculate_timestep(self, states):
            return self.parameters['ts']

        def next_update(self, timestep, states):
            return {'f': {'glc': np.array([-1.0, -2.0])}}

    def once(shared):
        base = np.array(spec['base'], dtype=float)
        tl = []
        for t, kind in spec['events']:
            value = (base if shared else base.copy()) if kind == 'base' else np.array([float(kind), 0.5])
            tl.append((t, {('f', 'glc'): value}))
        e = Engine(processes={'timeline': TimelineProcess({'timeline': tl, 'time_step': spec['ts']}),
                              'consumer': Consumer({'ts': spec['cts']})},
                   topology={'timeline': {'global': ('global',), 'f': ('f',)}, 'consumer': {'f': ('f',)}},
                   display_info=False)
        for iv in spec['runs']:
            e.update(iv)
        return {t: [float(x) for x in row['f']['glc']] for t, row in e.emitter.get_data().items()}, base
    try:
        a, base_a = once(True)
        b, _ = once(False)
        bad = [t for t in sorted(set(a) | set(b)) if a.get(t) != b.get(t)]
        V.check('trajectory', not bad,
                lambda: ('events listing one array object at several times: the run differs from the run with a copy per event, first '
                         'at t=%r' % bad[0], a.get(bad[0]), b.get(bad[0]), spec['events']))
        V.check('trajectory', [float(x) for x in base_a] == [float(x) for x in spec['base']],
                lambda: ('the array the caller listed in the timeline was changed by the run', spec['base'], list(base_a)))
    except Exception as ex:
        V.check('trajectory', False, ('engine raised', type(ex).__name__, str(ex)[:200]))
    return {'viol': list(V), 'evals': V.evals, 'nontrivial': len(spec['events']) >= 2, 'classes': ['field'],
            'summary': {'events': len(spec['events'])}}


def run(spec):
    if spec.get('family') == 'field':
        return run_field(spec)
    import vivarium  # noqa
    from vivarium.core.engine import Engine
    from vivarium.core.process import Process, Step
    from vivarium.processes.timeline import TimelineProcess
    from vivarium.core.composition import add_timeline
    V = Viol()
    events = spec['events']
    ts = spec['ts']
    driven = sorted({tuple(v) for _, ch in events for v, _ in ch})
    ports = sorted({v[0] for v in driven})

    def declared(var):
        if not spec.get('declared_acc'):
            return 'set'
        return ['set', 'accumulate', 'nonnegative_accumulate'][driven.index(var) % 3]

    class Bump(Step):
        def ports_schema(self):
            sch = {}
            for var in driven:
                node = sch
                for k in var[:-1]:
                    node = node.setdefault(k, {})
                # (the declared default differs from every value the events set and from the initial 0)
                # (every second variable declares an accumulating updater: an event still SETS it - the event's
                # update names its own updater - and the step's +1 is then an increment)
                node[var[-1]] = {'_default': 5, '_emit': True, '_updater': declared(var)}
            return sch

        def next_update(self, timestep, states):
            upd = {}
            for var in driven:
                x = states
                for k in var:
                    x = x[k]
                if isinstance(x, int):
                    node = upd
                    for k in var[:-1]:
                        node = node.setdefault(k, {})
                    node[var[-1]] = (x + 1) if declared(var) == 'set' else 1
            return upd

    class Other(Process):
        def ports_schema(self):
            return {'o': {'n': {'_default': 0}}}

        def next_update(self, timestep, states):
            return {'o': {'n': 1}}

    tl = [[t, {tuple(v): x for v, x in ch}] for t, ch in events]
    for i_src, j in spec.get('share', []):
        tl[j][1] = tl[i_src][1]              # the same dictionary object
    tl = [tuple(ev) for ev in tl]
    # where each port lives
    where = {p: (p,) for p in ports}
    if spec['entry'] == 'add_timeline_paths':
        where = {p: ('env', p) for p in ports}
    processes = {}
    topology = {}
    if spec['entry'] == 'direct':
        processes['timeline'] = TimelineProcess({'timeline': tl, 'time_step': ts})
        topology['timeline'] = dict({'global': ('global',)}, **where)
    elif spec['entry'] == 'experiment':
        pass          # the experiment helper adds the timeline process itself (below)
    else:
        cfg = {'timeline': tl, 'time_step': ts}
        if spec['entry'] == 'add_timeline_paths':
            cfg['paths'] = dict(where)
        add_timeline(processes, topology, cfg)
    if spec['other']:
        processes['other'] = Other({'timestep': ts * 2})
        topology['other'] = {'o': ('o',)}
    steps = {'bump': Bump()}
    topology['bump'] = dict(where)
    init = {}
    for var in driven:
        node = init
        for k in where[var[0]] + tuple(var[1:-1]):
            node = node.setdefault(k, {})
        node[var[-1]] = 0
    run_override = None
    try:
        if spec['entry'] == 'experiment':
            # through the experiment helpers: the timeline is a setting, and the run lasts until the latest event
            from vivarium.core.composer import Composite
            from vivarium.core.composition import composite_in_experiment
            settings = {'timeline': {'timeline': tl, 'time_step': ts}, 'display_info': False}
            e = composite_in_experiment(Composite({'processes': processes, 'steps': steps, 'topology': topology}),
                                        settings, initial_state=init)
            run_override = settings['total_time']
            e.update(run_override)
        else:
            e = Engine(processes=processes, steps=steps, topology=topology, initial_state=init,
                       display_info=False)
            for iv in spec.get('runs') or [spec['run']]:
                e.update(iv)
        data = e.emitter.get_data()
    except Exception as ex:
        import traceback
        V.check('trajectory', False, ('engine raised', type(ex).__name__, str(ex)[:200], traceback.format_exc()[-500:]))
        data = None
    if spec['entry'] == 'experiment':
        # the helper's run length has to be the time of the latest event, however the events are listed
        latest = max(t for t, _ in events)
        V.check('trajectory', run_override is None or run_override == latest,
                lambda: ('the experiment helper runs for %r, the latest event is at %r' % (run_override, latest), events))
        exp = model(events, ts, float(latest), driven)
    else:
        exp = model(events, ts, spec.get('runs') or spec['run'], driven)
    stats = {}
    datas = [data]
    if data is not None and spec.get('again') and spec['entry'] != 'experiment':
        # the same process objects in a second engine (a fresh hierarchy): every event fires again, once
        try:
            e2 = Engine(processes=processes, steps=steps, topology=topology, initial_state=copy.deepcopy(init),
                        display_info=False)
            for iv in spec.get('runs') or [spec['run']]:
                e2.update(iv)
            datas.append(e2.emitter.get_data())
        except Exception as ex:
            V.check('trajectory', False, ('second engine with the same processes raised', type(ex).__name__, str(ex)[:200]))
    for data in datas:
      if data is not None:
        got = {}
        for t, row in data.items():
            if t not in exp:
                continue        # ticks of the other process
            vals = {}
            for var in driven:
                node = row
                for k in where[var[0]] + tuple(var[1:-1]):
                    node = node.get(k, {}) if isinstance(node, dict) else {}
                vals[var] = node.get(var[-1], 'MISSING') if isinstance(node, dict) else 'MISSING'
            got[t] = vals
        bad = [t for t in exp if got.get(t) != exp[t]]
        which = 'second engine: ' if data is not datas[0] else ''
        V.check('trajectory', not bad,
                lambda: (which + 'driven variables differ from the timeline model at t=%s' % bad[0],
                         {'expected': {str(k): v for k, v in exp[bad[0]].items()},
                          'got': {str(k): v for k, v in (got.get(bad[0]) or {}).items()}},
                         'events', events, 'ts', ts))
        stats['rows_compared'] = len(exp)
    times = [t for t, _ in events]
    same_tick = len({int(-(-t // ts)) for t in times}) < len(times)
    nontrivial = len(events) >= 2 and (times != sorted(times) or len(set(times)) < len(times) or same_tick)
    return {'viol': list(V), 'evals': V.evals, 'stats': stats, 'nontrivial': nontrivial,
            'classes': ['unsorted' if times != sorted(times) else 'sorted',
                        'dup_times' if len(set(times)) < len(times) else 'unique_times',
                        'several_per_tick' if same_tick else 'one_per_tick', spec['entry'],
                        'several_calls' if spec.get('runs') else 'one_call'],
            'summary': {'events': len(events), 'ticks': len(exp)}}


MANIFEST = {
    'text': 'Exploration with an exhaustive core: all permutations of four fixed small timelines x three timesteps, plus thousands of random timelines (duplicate times, several events per tick, overlapping variables, both entry points); the emitted trajectory of the driven variables is compared row by row with an executable timeline model, a bumping step making lost / late / repeated firings visible.',
    'note': 'Dyadic times so float arithmetic is exact; scalar event values; trusts the timeline model R5 in checks/c19.py.',
    'technique': 'runtime monitoring: emitted trajectory vs executable timeline model over enumerated and generated timelines',
}
