"""C01 - every process update is applied exactly once, at the end of its interval.

Monitor shape: every next_update returns a unique token; an append-only ledger
(Elle-style: the state itself is the application order) and the ledger updater
record when each token is applied; every emitted row is a snapshot of the
ledger. Offline checker: exactly-once, per-process order, apply time == exact
interval end (exact class) / bracketed (weak class), no token from a false
condition poll, rows == tokens due, accumulators == sums."""
from fractions import Fraction as F
from decimal import Decimal as D

from vmon.util import Viol
from vmon import sched

ID = 'C01'
LEVEL = 'exploration'
RULE = ('1-6 ledger processes on one shared ledger, private ledgers, shared or private accumulators; classes: '
        'exact (always-on, constant / invocation-indexed timesteps, dyadic or decimal+precision grid), weak '
        '(conditions: state flag toggled by other processes, built-in _condition path, scripted sequences, '
        'never; state-dependent timesteps; decimal grid without precision), parallel (thorough tier: exact '
        'class with a subset of processes run as ParallelProcess); 1-7 run_for/update calls, most sequences '
        'end with update(); non-trivial = >=2 processes, >=5 applied tokens and at least one deferral, '
        'coincident interval end, forced truncation or false condition poll; distinct = distinct spec')
PLAN = {'quick': {'n': 24000, 'min_cases': 1500}, 'thorough': {'n': 250000, 'min_cases': 30000}}
REQUIRED_ORACLES = ['exactly_once', 'apply_time_exact', 'apply_order', 'rows_are_due_tokens', 'accumulator',
                    'weak_bracket', 'no_token_from_false_poll', 'final_ledger', 'not_lost']
ANCHORS = ['vivarium.core.engine:Engine.run_for', 'vivarium.core.engine:Engine._send_updates',
           'vivarium.core.engine:Engine.apply_update', 'vivarium.core.engine:Engine._remove_deleted_processes',
           'vivarium.core.engine:Defer.get', 'vivarium.core.engine:invert_topology',
           'vivarium.library.topology:inverse_topology']
ASSUMPTIONS = ['exact apply-time oracle only on exactly representable grids and always-on processes with '
               're-poll-stable timesteps; elsewhere a bracket oracle',
               'relative order of different processes\' tokens inside one batch is not asserted']


def gen(r, tier, i):
    if r.random() < 0.03:
        # processes that are created, deleted, divided and moved while updates are in flight: C10's structural
        # workload, judged here on the cells' ledgers only (no update applied twice or after a later one)
        from vmon.checks import c10
        return {'class': 'structural', 'c10': c10.gen(r, tier, i)}
    k = r.random()
    cls = 'exact' if k < 0.5 else 'weak'
    par = r.random() < (0.01 if tier == 'thorough' else 0.005)
    if cls == 'exact':
        if r.random() < 0.7:
            grid, prec = 'dyadic', None
        else:
            grid, prec = 'decimal', r.choice([1, 2, 3])
    else:
        if r.random() < 0.8:
            grid, prec = 'dyadic', None
        else:
            grid, prec = 'decimal', None
    gprec = prec or (r.choice([1, 2]) if grid == 'decimal' else None)
    n = r.randint(1, 6) if not par else r.randint(2, 3)
    procs = []
    for pid in range(n):
        p = {'pid': pid, 'ts': sched.gen_ts(r, grid, gprec), 'amount': r.choice([1, 2, 5]),
             'shared_acc': r.random() < 0.5}
        if r.random() < 0.25:
            p['amount2'] = 10 * r.choice([1, 2, 5])      # a second port on the accumulator's node
        elif not p['shared_acc'] and r.random() < 0.3:
            p['reset_at'] = r.randint(0, 3)      # that invocation's update sets the accumulator to 1000 (names its own updater)
        if r.random() < 0.2:
            p['pair'] = True       # two dictionary ports on one store, update dictionaries built once and reused
            p['tally'] = r.random() < 0.5   # ... and one dictionary-valued variable (per-key adding updater) through both
        if r.random() < 0.25:
            p['vec'] = True        # an array-valued accumulator of its own (all share one default object)
        if cls == 'weak':
            c = r.random()
            if c < 0.25:
                p['cond'] = 'flag'
            elif c < 0.4:
                p['cond_path'] = True
            elif c < 0.55:
                p['cond'] = {'seq': [r.random() < 0.6 for _ in range(r.randint(2, 6))]}
            elif c < 0.62:
                p['cond'] = 'never'
            p['toggle'] = r.choice([0, 0, 1, 2, 3])
            if r.random() < 0.2:
                p['ts'] = {'kind': 'state', 'seq': p['ts'].get('seq') or [p['ts']['v'], p['ts']['v'] * 2]}
        if par and r.random() < 0.7:
            p['parallel'] = True
        procs.append(p)
    calls = sched.gen_calls(r, grid, gprec, maxcalls=6, end_with_update=r.random() < 0.8, zero=True)
    calls = sched.cap_events(r, procs, calls, grid, gprec, cap=200 if not par else 60)
    if grid == 'dyadic':
        t0 = r.choice([0, 0, 0.0, 1.5, 10.0])
    else:
        t0 = r.choice([0, 0, float(r.choice(sched.DEC[gprec]['iv']))])
    return {'class': cls, 'grid': grid, 'precision': prec, 't0': t0, 'procs': procs, 'calls': calls,
            'parallel': par}


def exact(x, grid):
    return F(x) if grid == 'dyadic' else F(D(repr(x)))


def run(spec):
    if spec.get('class') == 'structural':
        from vmon.checks import c10
        from vmon.util import harvest
        return harvest(c10.run(spec['c10']), ('ledger_in_order', 'no_exception'), ['structural'])
    from vmon.sensors import Mon, drive
    V = Viol()
    m = Mon()
    Mon.cur = m
    grid = spec['grid']
    e = None
    try:
        e = sched.build(spec)
        m.eng = e
        ok, exc = drive(e, m, spec['calls'], sched.budget_for(spec))
        final_state = e.state.get_value() if ok else None
    except Exception as ex:
        import traceback
        ok, exc = False, ex
        V.check('no_exception', False, ('constructor raised', type(ex).__name__, str(ex)[:200], traceback.format_exc()[-300:]))
    finally:
        Mon.cur = None
        if spec.get('parallel') and e is not None:
            try:
                e.end()
            except Exception:
                pass
    if e is None:
        return {'viol': list(V), 'evals': V.evals, 'nontrivial': False}
    if not ok:
        V.check('no_exception', False, ('run_for/update did not return normally', repr(exc)[:300]))
    pidx = {p['pid']: p for p in spec['procs']}
    amounts = {p['pid']: p.get('amount', 1) + (p.get('amount2') or 0) for p in spec['procs']}
    applied = {}         # token -> [apply times]
    apply_seq = []       # tokens in application order
    per_proc = {}        # pid -> [(token, time)]
    invoke_t = {}
    false_poll = {}      # pid -> last cond result
    last_cond = {}
    n_false = 0
    stats = {'tokens_applied': 0, 'rows': 0, 'false_polls': 0, 'coincident_batches': 0}
    rows = []
    batch_times = {}
    flagsets = {}        # (pid, k) -> the value that invocation's update sets the shared flag to
    flag_now = [True]    # values the flag may hold: those set by the updates of the last batch that set it
    flag_batch = [None]
    for ev in m.events:
        if ev[0] == 'flagset':
            flagsets[tuple(ev[1])] = ev[2]
        elif ev[0] == 'apply' and (ev[1][0], ev[1][1]) in flagsets and not spec.get('parallel'):
            # (several processes may set the flag in one batch: the order inside a batch is not asserted)
            if flag_batch[0] != ev[2]:
                flag_batch[0] = ev[2]
                flag_now = []
            flag_now.append(flagsets[(ev[1][0], ev[1][1])])
        elif ev[0] == 'emit' and ev[1] == 'history' and not spec.get('parallel') and 'flag' in ev[3]:
            V.check('flag_follows_updates', ev[3]['flag'] in flag_now,
                    lambda: ('row at t=%r: the shared flag (updater set) holds %r, the last batch that set it sent %r' % (
                        ev[2], ev[3]['flag'], flag_now),))
        if ev[0] == 'apply':
            tok, t = ev[1], ev[2]
            applied.setdefault(tok, []).append(t)
            apply_seq.append(tok)
            per_proc.setdefault(tok[0], []).append((tok, t))
            batch_times.setdefault(t, set()).add(tok[0])
        elif ev[0] == 'cond':
            last_cond[ev[1]] = ev[3]
            if not ev[3]:
                n_false += 1
        elif ev[0] == 'invoke' and ev[1] == 'process':
            tok, t = ev[2], ev[3]
            invoke_t[tok] = t
            if not spec.get('parallel'):
                V.check('no_token_from_false_poll', last_cond.get(tok[0]) is True,
                        lambda: ('process invoked although its last condition poll was not true', tok))
        elif ev[0] == 'emit' and ev[1] == 'history':
            rows.append((ev[2], ev[3], list(apply_seq)))
    stats['false_polls'] = n_false
    stats['coincident_batches'] = sum(1 for s in batch_times.values() if len(s) >= 2)
    stats['tokens_applied'] = len(apply_seq)
    stats['rows'] = len(rows)
    # a process whose update condition is never true contributes nothing (any execution mode)
    for p in spec['procs']:
        if p.get('cond') == 'never':
            V.check('never_contributes', not per_proc.get(p['pid']),
                    lambda: ('process %d has an always-false update condition but %d of its updates were applied' % (
                        p['pid'], len(per_proc.get(p['pid'], []))),))
    # exactly once
    for tok, ts_ in applied.items():
        V.check('exactly_once', len(ts_) == 1, lambda: ('token applied %d times' % len(ts_), tok, ts_))
    for tok, t in invoke_t.items():
        a = applied.get(tok)
        if a:
            V.check('not_early', a[0] >= t, lambda: ('update applied before it was computed', tok, a[0], t))
    # per process order
    for pid, lst in per_proc.items():
        ks = [tok[1] for tok, _ in lst]
        V.check('apply_order', ks == sorted(ks) and len(set(ks)) == len(ks),
                lambda: ('updates of one process applied out of order', pid, ks[:30]))
    ended_forced = bool(spec['calls'][-1][1])
    final_t = e.global_time
    truncated = deferred = 0
    exact_class = spec['class'] == 'exact'
    if exact_class:
        calls = [(iv, bool(f)) for iv, f in spec['calls']]
        due_by_proc = {}
        for p in spec['procs']:
            ivs, S, t_end = sched.model_always_on(p, calls, spec['t0'], grid)
            due_by_proc[p['pid']] = ivs
            got = per_proc.get(p['pid'], [])
            if ok:
                V.check('not_lost', len(got) == len(ivs),
                        lambda: ('process %d: %d updates applied, %d intervals ended by t=%r' % (p['pid'], len(got), len(ivs), final_t)))
            for (k, S_k, E_k, arg), (tok, at) in zip(ivs, got):
                V.check('apply_time_exact', tok[1] == k and exact(at, grid) == E_k,
                        lambda: ('update %d of process %d applied at %r, its interval ends at %r' % (k, p['pid'], at, float(E_k))))
                ans = sched.num(p['ts']['v'] if p['ts']['kind'] == 'const' else p['ts']['seq'][k % len(p['ts']['seq'])], grid)
                truncated += arg != ans
        # rows: ledger at T == tokens with E <= T ; accumulators == sums
        if ok:
            from vmon.sensors import superseded_rows
            sup = superseded_rows(m.events)
            for (T, row, _), superseded in zip(rows, sup):
                if superseded:
                    # an empty forced interval completed left-behind processes at T after this row: the
                    # second row for T is the complete one (the repeated time key is C12's business)
                    continue
                Tq = exact(T, grid)
                exp = {(pid, k) for pid, ivs in due_by_proc.items() for (k, S_k, E_k, arg) in ivs if E_k <= Tq}
                got = {(tok[0], tok[1]) for tok in map(tuple, row.get('log', []))}
                V.check('rows_are_due_tokens', got == exp and len(row.get('log', [])) == len(got),
                        lambda: ('row at t=%r: ledger != tokens whose interval ended by then' % T,
                                 sorted(exp - got)[:5], sorted(got - exp)[:5]))
                check_acc(V, spec, row, got, amounts, T)
    else:
        # weak class
        for pid, lst in per_proc.items():
            prev = spec['t0']
            for tok, at in lst:
                t_inv = invoke_t.get(tok)
                if t_inv is not None:
                    S = exact(at, 'dyadic' if grid == 'dyadic' else 'decimal') - exact(tok[2], 'dyadic' if grid == 'dyadic' else 'decimal')
                    tol = F(0) if grid == 'dyadic' else F(1, 10 ** 9)
                    V.check('weak_bracket', exact(prev, grid) - tol <= S <= exact(t_inv, grid) + tol,
                            lambda: ('apply time - timestep argument outside [previous apply, invoke time]', tok,
                                     'applied', at, 'previous', prev, 'invoked', t_inv))
                prev = at
        if ok and ended_forced:
            for tok in invoke_t:
                V.check('not_lost', tok in applied, lambda: ('update computed but never applied although update() completed', tok))
        for T, row, seq in rows:
            got = [tuple(t) for t in row.get('log', [])]
            V.check('rows_are_due_tokens', got == seq,
                    lambda: ('row at t=%r does not show exactly the tokens applied so far' % T, got[-3:], seq[-3:]))
            check_acc(V, spec, row, {(t[0], t[1]) for t in got}, amounts, T)
    if final_state is not None:
        V.check('final_ledger', [tuple(t) for t in final_state['log']] == apply_seq,
                lambda: ('final ledger differs from the application log', len(final_state['log']), len(apply_seq)))
        for p in spec['procs']:
            own = [tuple(t) for t in final_state['own']['p%d' % p['pid']]]
            V.check('final_ledger', own == [tok for tok, _ in per_proc.get(p['pid'], [])],
                    lambda: ('private ledger of process %d differs from its application log' % p['pid']))
    polls = sum(1 for ev in m.events if ev[0] == 'poll')
    deferred = max(0, polls - len(invoke_t) - n_false)
    nt = len(spec['procs']) >= 2 and len(apply_seq) >= 5 and (deferred or truncated or n_false or stats['coincident_batches'])
    stats['truncated'] = truncated
    stats['repolls'] = deferred
    return {'viol': list(V), 'evals': V.evals, 'stats': stats, 'nontrivial': bool(nt),
            'classes': ['class_' + spec['class'], 'grid_' + grid, 'precision_%s' % spec['precision'],
                        'parallel' if spec.get('parallel') else 'serial',
                        'ends_forced' if ended_forced else 'ends_unforced'],
            'summary': dict(stats)}


def check_acc(V, spec, row, present, amounts, T):
    """Accumulators in a row == initial 0 + sum over tokens present in that row's ledger."""
    shared = sum(amounts[pid] for pid, k in present if _shared(spec, pid))
    if any(p.get('shared_acc') for p in spec['procs']):
        V.check('accumulator', row.get('shared_acc') == shared,
                lambda: ('shared accumulator at t=%r is %r, sum of applied updates %r' % (T, row.get('shared_acc'), shared)))
    for p in spec['procs']:
        if p.get('vec'):
            cnt = sum(1 for pid, k in present if pid == p['pid'])
            a = p.get('amount', 1)
            got = row.get('vec', {}).get('p%d' % p['pid'])
            got2 = row.get('vec2', {}).get('p%d' % p['pid'])
            V.check('accumulator', got is not None and got2 is not None and list(got) == [a * cnt, 2 * a * cnt] and
                    list(got2) == [3 * a * cnt, 3 * a * cnt],
                    lambda: ('array accumulators of process %d at t=%r are %r and %r, %d updates of [%r, %r] and [%r, %r] applied' % (
                        p['pid'], T, got, got2, cnt, a, 2 * a, 3 * a, 3 * a)))
        if p.get('pair'):
            cnt = sum(1 for pid, k in present if pid == p['pid'])
            a = p.get('amount', 1)
            got = row.get('pair', {}).get('p%d' % p['pid'])
            exp_pair = {'x': a * cnt, 'y': 10 * a * cnt, 'g': {'u': a * cnt, 'v': 10 * a * cnt}}
            if p.get('tally'):
                exp_pair['tally'] = {'a': 4 * a * cnt, 'b': 2 * a * cnt} if cnt else {}
            V.check('accumulator', got == exp_pair,
                    lambda: ('pair store of process %d at t=%r is %r, %d updates of x+=%r, y+=%r applied' % (p['pid'], T, got, cnt, a, 10 * a)))
        if not p.get('shared_acc'):
            exp = sum(amounts[pid] for pid, k in present if pid == p['pid'])
            k0 = p.get('reset_at')
            if k0 is not None and (p['pid'], k0) in present:
                exp = 1000 + sum(amounts[pid] for pid, k in present if pid == p['pid'] and k > k0)
            got = row.get('acc', {}).get('p%d' % p['pid'])
            V.check('accumulator', got == exp,
                    lambda: ('accumulator of process %d at t=%r is %r, sum of applied updates %r' % (p['pid'], T, got, exp)))


def _shared(spec, pid):
    for p in spec['procs']:
        if p['pid'] == pid:
            return bool(p.get('shared_acc'))
    return False


MANIFEST = {
    'text': 'Exploration: thousands of generated composites x schedules per run. Unique tokens + an append-only ledger make loss, duplication, reordering and mistimed application visible in any run; on exact grids the apply time of every token is compared with the exact rational end of its interval and every emitted row with the set of tokens due by then; conditional / state-dependent processes get the bracket oracle, the no-token-from-a-false-poll oracle and row == application-log-prefix.',
    'note': 'Exact oracle limited to always-on, re-poll-stable processes on exact grids; order of different processes inside one batch not asserted; parallel cases only in the thorough tier (and in C13).',
    'technique': 'runtime monitoring: unique-token ledger history (Elle-style) checked offline against an exact interval model',
}
