"""C16 - composites embed, merge and load the same way through every entry point.

Monitor shape: snapshots (structure + identity of every nested dictionary and
leaf) of Composite objects before and after merge sequences; emitted
trajectories of engines built through each entry point and at each embedding
path, compared after re-rooting; schema read back from every process after
overrides."""
import copy

from vmon.util import Viol

ID = 'C16'
LEVEL = 'exploration'
RULE = ('generated composers (1-3 timed processes, optional nested sub-compartment wired with "..", two flow steps, '
        'optional legacy deriver), embedding paths of depth 0-3, merge sequences of 2-6 operations (composite '
        'form, loose processes/topology/steps/flow/state form, with and without path, the same template merged '
        'several times), the three engine entry points with one explicit initial state, _schema overrides via '
        'composer config / process parameters / Composite.merge, MetaComposer with overlapping and disjoint '
        'keys; non-trivial = embedding depth >=1 or >=3 merges, and a nested sub-compartment or >=2 processes; '
        'distinct = distinct case spec')
PLAN = {'quick': {'n': 2500, 'min_cases': 200}, 'thorough': {'n': 30000, 'min_cases': 3000}}
REQUIRED_ORACLES = ['process_generate', 'fresh_composite_pristine', 'embed_structure', 'embed_run', 'merged_in_unchanged', 'merge_is_union', 'entry_points_same_run',
                    'override_reaches_named_only', 'metacomposer_overlap']
ANCHORS = ['vivarium.core.composer:Composer.generate', 'vivarium.core.process:Process.generate',
           'vivarium.core.process:assoc_in', 'vivarium.core.composer:Composite.merge',
           'vivarium.core.composer:Composite.generate_store', 'vivarium.core.composer:get_composite_from_store',
           'vivarium.core.composer:MetaComposer._generate', 'vivarium.core.engine:Engine._make_store',
           'vivarium.core.process:_override_schemas']
ASSUMPTIONS = ['self-contained topologies (no wiring above the composite root), so that a composite runs the same at any path',
               'dyadic timesteps; deterministic updates']


def gen(r, tier, i):
    ops = []
    for _ in range(r.randint(2, 6)):
        k = r.random()
        p = r.choice([[], ['c1'], ['c1'], ['c2'], ['c1', 'sub2'], ['c1', 'sub'], ['c2', 'c1']])
        if k < 0.45:
            ops.append({'form': 'template', 'path': p or ['c1']})
        elif k < 0.7:
            ops.append({'form': 'composite', 'path': p, 'k': r.randint(1, 2), 'tag': 'm%d' % len(ops)})
        elif k < 0.9:
            ops.append({'form': 'loose', 'path': p, 'tag': 'l%d' % len(ops), 'state': r.random() < 0.5})
        else:
            ops.append({'form': 'rewire', 'path': p})
    # (k = 0 without nesting: a composite of steps only)
    return {'k': r.randint(0, 3), 'nest': r.random() < 0.6, 'deriver': r.random() < 0.4,
            'path': [r.choice(['x', 'y', 'z']) for _ in range(r.randint(0, 3))],
            'ops': ops, 'init_n': r.randint(0, 9), 'host': r.choice(['empty', 'generated']),
            'override': {'target': r.choice(['p0', 's', 'sub.q', 'sub2.u', 'sub.h']), 'via': r.choice(['composer', 'process', 'merge', 'merge']),
                         'late': r.random() < 0.5},
            'tags': r.random() < 0.5, 'flowtags': r.random() < 0.5, 'meta_overlap': r.random() < 0.5, 'shared_schema': r.random() < 0.4, 'own_init': r.random() < 0.25}


def classes():
    from vivarium.core.process import Process, Step
    from vivarium.core.composer import Composer

    class P(Process):
        SCHEMA = {'S': {'n': {'_default': 1, '_emit': True}}}

        def ports_schema(self):
            # (some cases: every instance hands out one class-level schema object)
            if self.parameters.get('shared'):
                return P.SCHEMA
            return {'S': {'n': {'_default': 1, '_emit': True}}}

        def calculate_timestep(self, states):
            return self.parameters.get('ts', 1.0)

        def initial_state(self, config=None):
            # (some cases: the process has an initial state of its own)
            return {'S': {'n': 50}} if self.parameters.get('own_init') else {}

        def next_update(self, timestep, states):
            return {'S': {'n': states['S']['n'] % 5 + self.parameters.get('inc', 1)}}

    class St(Step):
        def ports_schema(self):
            return {'S': {'n': {'_default': 1}, 'm': {'_default': 0, '_updater': 'set', '_emit': True}}}

        def next_update(self, timestep, states):
            return {'S': {'m': states['S']['n'] * 3}}

    class Tag(Step):
        """A step without a flow entry that appends its tag to a list: the list shows the order they ran in."""
        def ports_schema(self):
            return {'T': {'tags': {'_default': [], '_updater': 'set', '_emit': True}}}

        def next_update(self, timestep, states):
            return {'T': {'tags': (states['T']['tags'] + [self.parameters['tag']])[-6:]}}

    class C(Composer):
        defaults = {'k': 2, 'nest': True, 'deriver': False, 'tag': '', 'shared': False, 'own_init': False, 'mixed': False,
                    'tags': False, 'flowtags': False}

        def generate_processes(self, config):
            d = {'p%d' % i: P({'inc': i + 1, 'ts': 0.5 * (i + 1), 'shared': config['shared']}) for i in range(config['k'])}
            if config['nest']:
                d['sub'] = {'q': P({'inc': 7, 'shared': config['shared'], 'own_init': config.get('own_init')})}
            if config['deriver']:
                d['drv'] = St()
            if config.get('tags') and config.get('flowtags'):
                # flow steps listed among the processes (the dependent one first): their flow entries count
                d['f2tag'] = Tag({'tag': 'f2'})
                d['f1tag'] = Tag({'tag': 'f1'})
            return d

        def generate_steps(self, config):
            d = {'s': St(), 't': St()}
            if config.get('tags'):
                # steps without flow entries, run in declaration order: a (root), n (inside compartment sub, which
                # exists already through the processes when nest is on), z (root)
                d = {'atag': Tag({'tag': 'a'}), 's': St(), 't': St(), 'sub': {'ntag': Tag({'tag': 'n'})}, 'ztag': Tag({'tag': 'z'})}
            if config['nest']:
                d['sub2'] = {'u': St()}       # nested steps and flow: every part has nested dictionaries
                if config.get('mixed'):
                    d['sub'] = dict(d.get('sub', {}), h=St())    # a compartment that holds a process and a step
            return d

        def generate_flow(self, config):
            d = {'s': [], 't': [('s',)]}
            if config.get('tags') and config.get('flowtags'):
                d.update({'f2tag': [('f1tag',)], 'f1tag': []})
            if config['nest']:
                d['sub2'] = {'u': []}
                if config.get('mixed'):
                    d['sub'] = {'h': []}
            return d

        def generate_topology(self, config):
            d = {'p%d' % i: {'S': ('st',)} for i in range(config['k'])}
            d.update({'s': {'S': ('st',)}, 't': {'S': ('st2',)}})
            if config.get('tags'):
                d.update({'atag': {'T': ('tg',)}, 'ztag': {'T': ('tg',)}, 'sub': {'ntag': {'T': ('..', 'tg')}}})
                if config.get('flowtags'):
                    d.update({'f2tag': {'T': ('tg',)}, 'f1tag': {'T': ('tg',)}})
            if config['nest']:
                d['sub'] = dict(d.get('sub', {}), q={'S': ('..', 'st2')})
                d['sub2'] = {'u': {'S': ('..', 'st')}}
                if config.get('mixed'):
                    d['sub']['h'] = {'S': ('..', 'st')}
            if config['deriver']:
                d['drv'] = {'S': ('st3',)}
            return d
    return P, St, C


def snap(c):
    """Structure of a composite with identities of nested dictionaries and leaves."""
    def walk(d):
        if isinstance(d, dict):
            return ('D', id(d), {k: walk(v) for k, v in d.items()})
        if isinstance(d, (list, tuple)):
            return ('L', tuple(walk(x) for x in d))
        if isinstance(d, (int, float, str, bool)) or d is None:
            return d
        return ('O', id(d))
    return {k: walk(c[k]) for k in ('processes', 'steps', 'flow', 'topology', 'state')}


def snap_dicts(d):
    return None


def shape(d, Process):
    if isinstance(d, dict):
        return {k: shape(v, Process) for k, v in d.items()}
    if isinstance(d, Process):
        return type(d).__name__
    if isinstance(d, list):
        return [tuple(x) if isinstance(x, (list, tuple)) else x for x in d]
    return d


def nestp(path, d):
    for k in reversed(path):
        d = {k: d}
    return d


def union(a, b):
    """Dictionary union, later wins on equal keys, nested dictionaries merged."""
    out = dict(a)
    for k, v in b.items():
        if isinstance(v, dict) and isinstance(out.get(k), dict):
            out[k] = union(out[k], v)
        else:
            out[k] = v
    return out


def run(spec):
    from vivarium.core.engine import Engine
    from vivarium.core.process import Process
    from vivarium.core.composer import Composite, MetaComposer
    V = Viol()
    P, St, C = classes()
    cfg = {'k': spec['k'], 'nest': spec['nest'], 'deriver': spec['deriver'], 'shared': bool(spec.get('shared_schema')),
           'own_init': bool(spec.get('own_init')), 'tags': bool(spec.get('tags')), 'flowtags': bool(spec.get('flowtags'))}
    path = tuple(spec['path'])
    stats = {}
    try:
        root = C(cfg).generate()
        emb = C(cfg).generate(path=path)
        for key in ('processes', 'steps', 'flow', 'topology'):
            V.check('embed_structure', shape(emb[key], Process) == nestp(path, shape(root[key], Process)),
                    lambda: ('generate(path=%r): %s is not the root composite nested under the path' % (path, key),))
        init = {'st': {'n': spec['init_n']}}
        e1 = Engine(composite=root, initial_state=copy.deepcopy(init), display_info=False)
        e1.update(3)
        e2 = Engine(composite=emb, initial_state=nestp(path, copy.deepcopy(init)), display_info=False)
        e2.update(3)
        d1, d2 = e1.emitter.get_data(), e2.emitter.get_data()
        V.check('embed_run', {t: nestp(path, v) for t, v in d1.items()} == d2,
                lambda: ('the composite embedded at %r runs differently from the root composite' % (path,),))
        stats['rows'] = len(d1)

        # a single process used as its own composer: Process.generate embeds at a path the same way
        pr = P({'name': 'solo', 'inc': 2, 'ts': 0.5}).generate()
        pe = P({'name': 'solo', 'inc': 2, 'ts': 0.5}).generate(path=path)
        V.check('process_generate', shape(pe['processes'], Process) == nestp(path, shape(pr['processes'], Process)) and
                pe['topology'] == nestp(path, pr['topology']) and pr['topology'] == {'solo': {'S': ('S',)}},
                lambda: ('Process.generate(path=%r) is not the root result nested under the path' % (path,), pe['topology']))
        g1 = Engine(processes=pr['processes'], topology=pr['topology'], display_info=False)
        g1.update(2)
        g2 = Engine(processes=pe['processes'], topology=pe['topology'], display_info=False)
        g2.update(2)
        V.check('process_generate', {t: nestp(path, v) for t, v in g1.emitter.get_data().items()} == g2.emitter.get_data(),
                lambda: ('a process generated at %r runs differently from the root one' % (path,),))

        # the three entry points
        parts = C(cfg).generate()
        ea = Engine(processes=parts['processes'], steps=parts['steps'], flow=parts['flow'], topology=parts['topology'],
                    initial_state=copy.deepcopy(init), display_info=False)
        ea.update(3)
        cs = C(cfg).generate()
        store = cs.generate_store({'initial_state': copy.deepcopy(init)})
        eb = Engine(store=store, display_info=False)
        eb.update(3)
        same_ab = ea.emitter.get_data() == d1 and eb.emitter.get_data() == d1
        mech = None
        if not same_ab and ea.emitter.get_data() == d1 and cfg['own_init']:
            # Known finding F3: Composite.generate_store() also applies the processes' own initial_state(), the
            # composite and parts entry points do not. Labelled only if that alone explains the difference.
            cc = C(cfg).generate()
            ec = Engine(composite=C(cfg).generate(), initial_state=cc.initial_state({'initial_state': copy.deepcopy(init)}),
                        display_info=False)
            ec.update(3)
            if ec.emitter.get_data() == eb.emitter.get_data():
                mech = 'store-entry-applies-process-initial-state'
        V.check('entry_points_same_run', same_ab,
                lambda: ('engines built from composite / parts / store emit different trajectories',
                         _first_diff(d1, ea.emitter.get_data()), _first_diff(d1, eb.emitter.get_data())), mechanism=mech)

        # ... and a Composite made from a store (Composite(store=...)) runs like the store it was made from
        from vivarium.core.composer import Composite as _Composite
        cs2 = C(cfg).generate()
        ed = Engine(composite=_Composite(store=cs2.generate_store({'initial_state': copy.deepcopy(init)})), display_info=False)
        ed.update(3)
        V.check('entry_points_same_run', ed.emitter.get_data() == eb.emitter.get_data(),
                lambda: ('an engine built from Composite(store=S) runs differently from the engine built from the store S',
                         _first_diff(eb.emitter.get_data(), ed.emitter.get_data())))

        # merge sequences
        T = C(cfg).generate()
        T0 = snap(T)
        pristine = {k: shape(T[k], Process) for k in ('processes', 'steps', 'flow', 'topology', 'state')}
        if spec.get('host') == 'generated':
            # the receiving composite is itself generated by a composer (it has no 'state' of its own)
            M = C(dict(cfg, k=1, nest=False, deriver=False)).generate(path=('host',))
            model = {k: copy.deepcopy(shape(M[k], Process)) for k in ('processes', 'steps', 'flow', 'topology', 'state')}
        else:
            M = Composite({})
            model = {k: {} for k in ('processes', 'steps', 'flow', 'topology', 'state')}
        loose_list = []
        merged_in = []
        for op in spec['ops']:
            p = tuple(op['path'])
            if op['form'] == 'template':
                M.merge(composite=T, path=p)
                src = T
            elif op['form'] == 'composite':
                src = C(dict(cfg, k=op['k'])).generate()
                merged_in.append((src, snap(src)))
                M.merge(composite=src, path=p)
            elif op['form'] == 'rewire':
                # a port of the template's process p0 is wired again, under the same path: first with a
                # dictionary topology, then with a plain path (a dictionary replaced by a non-dictionary)
                first = {'topology': {'p0': {'S': {'_path': ('st',), 'n': ('n',)}}}}
                second = {'topology': {'p0': {'S': ('st2',)}}}
                M.merge(topology=first['topology'], path=p)
                for key in model:
                    model[key] = union(model[key], nestp(p, shape(first.get(key, {}), Process)))
                M.merge(topology=second['topology'], path=p)
                src = second
            else:
                loose = {'processes': {op['tag']: P({'inc': 2}), 'sub': {op['tag'] + 'q': P({'inc': 3})}},
                         'topology': {op['tag']: {'S': ('st',)}, 'sub': {op['tag'] + 'q': {'S': ('..', 'st')}},
                                      'sub2': {op['tag'] + 'u': {'S': ('..', 'st')}}},
                         'steps': {op['tag'] + 's': St(), 'sub2': {op['tag'] + 'u': St()}},
                         'flow': {op['tag'] + 's': [], 'sub2': {op['tag'] + 'u': []}},
                         'state': {'st': {'n': 4}} if op['state'] else {}}
                loose['topology'][op['tag'] + 's'] = {'S': ('st',)}
                before = copy.deepcopy({k: shape(v, Process) for k, v in loose.items()})
                before_ids = snap_dicts(loose)
                M.merge(processes=loose['processes'], topology=loose['topology'], steps=loose['steps'],
                        flow=loose['flow'], state=loose['state'], path=p)
                loose_list.append((loose, before, op))
                src = loose
            for key in model:
                model[key] = union(model[key], nestp(p, shape(src.get(key, {}), Process)))
        V.check('merged_in_unchanged', snap(T) == T0,
                lambda: ('a template composite merged several times was modified by the merges',
                         _snapdiff(T0, snap(T))))
        for loose, before, op in loose_list:
            V.check('merged_in_unchanged', {k: shape(v, Process) for k, v in loose.items()} == before,
                    lambda: ('merge() / later merges modified the loose dictionaries handed in', op))
        for src, s0 in merged_in:
            V.check('merged_in_unchanged', snap(src) == s0,
                    lambda: ('a merged-in composite was modified by later merges', _snapdiff(s0, snap(src))))
        for key in model:
            V.check('merge_is_union', shape(M[key], Process) == model[key],
                    lambda: ('merged %s is not the union (later wins) of what was merged in' % key,
                             repr(shape(M[key], Process))[:300], repr(model[key])[:300]))

        # a composite generated after all this merging is the same as one generated before
        fresh = C(cfg).generate()
        V.check('fresh_composite_pristine',
                {k: shape(fresh[k], Process) for k in pristine} == pristine and not fresh['state'] and not Composite({})['state'],
                lambda: ('a composite generated after merges into other composites differs from one generated before',
                         repr(shape(fresh['state'], Process))[:200], repr(Composite({})['state'])[:100]))
        # schema overrides reach exactly the named process / port
        override_case(V, spec, P, St, C, cfg)

        # MetaComposer
        class C2(C):
            def generate_processes(self, config):
                return {('p0' if spec['meta_overlap'] else 'other'): P({'inc': 3})}

            def generate_steps(self, config):
                return {}

            def generate_flow(self, config):
                return {}

            def generate_topology(self, config):
                return {('p0' if spec['meta_overlap'] else 'other'): {'S': ('st',)}}
        mc = MetaComposer(composers=[C(cfg), C2(cfg)])
        try:
            mres = mc.generate()
            raised = None
        except ValueError as ex:
            raised = ex
        if spec['meta_overlap'] and spec['k'] >= 1:
            V.check('metacomposer_overlap', raised is not None, 'MetaComposer accepted composers with overlapping keys')
        else:
            V.check('metacomposer_overlap', raised is None and set(mres['processes']) == set(root['processes']) | {
                'p0' if spec['meta_overlap'] else 'other'},
                    lambda: ('MetaComposer of disjoint composers is not their union', repr(raised)))
    except Exception as ex:
        import traceback
        V.check('no_exception', False, ('raised', type(ex).__name__, str(ex)[:300], traceback.format_exc()[-500:]))
    nt = (len(path) >= 1 or len(spec['ops']) >= 3) and (spec['nest'] or spec['k'] >= 2)
    return {'viol': list(V), 'evals': V.evals, 'stats': stats, 'nontrivial': bool(nt),
            'classes': ['depth_%d' % len(path), 'nest' if spec['nest'] else 'flat', 'override_' + spec['override']['via']],
            'summary': {'merges': len(spec['ops']), 'path': spec['path']}}


def override_case(V, spec, P, St, C, cfg):
    from vivarium.core.process import Process
    from vivarium.core.composer import Composite
    target = spec['override']['target']
    via = spec['override']['via']
    cfg = dict(cfg, nest=True, k=max(2, cfg['k']), mixed=(target == 'sub.h'))
    tpath = tuple(target.split('.'))
    is_step = target in ('s', 'sub2.u', 'sub.h')
    ov = {'S': {'n': {'_default': 42}}}
    nested_ov = ov
    for k in reversed(tpath):
        nested_ov = {k: nested_ov}
    if via == 'composer':
        comp = C(dict(cfg, _schema=nested_ov)).generate()
    elif via == 'merge':
        comp = Composite({})
        if spec['override'].get('late'):
            # multi-step: the composite has already been loaded into a store once (its processes have
            # been placed and asked for their schema) when the override is merged
            comp.merge(composite=C(cfg).generate())
            comp.generate_store({})
            comp.merge(schema_override=nested_ov)
        else:
            comp.merge(composite=C(cfg).generate(), schema_override=nested_ov)
    else:
        comp = C(cfg).generate()
        # a process-level override: replace the target by an instance built with _schema
        node = comp['steps'] if is_step else comp['processes']
        for k in tpath[:-1]:
            node = node[k]
        node[tpath[-1]] = (St if is_step else P)({'_schema': ov, 'inc': 1, 'shared': cfg.get('shared')})
    found = {}

    def walk(d, p=()):
        for k, v in d.items():
            if isinstance(v, dict):
                walk(v, p + (k,))
            elif isinstance(v, Process) and 'S' in v.get_schema():
                found[p + (k,)] = v.get_schema()['S']['n']['_default']
    walk(comp['processes'])
    walk(comp['steps'])
    wrong = {'.'.join(p): d for p, d in found.items() if (d == 42) != (p == tpath)}
    V.check('override_reaches_named_only', not wrong and tpath in found,
            lambda: ('schema override for %s (via %s): default of S.n per process (42 = overridden)' % (target, via),
                     {'.'.join(p): d for p, d in found.items()}))
    # several targets in one override, the one inside the nested compartment listed first: all are reached
    multi = {'sub': {'q': {'S': {'n': {'_default': 61}}}}, 'p1': {'S': {'n': {'_default': 62}}}, 'p0': {'S': {'n': {'_default': 63}}}}
    cm = C(dict(cfg, mixed=False, _schema=multi)).generate()
    got = {'sub.q': cm['processes']['sub']['q'].get_schema()['S']['n']['_default'],
           'p1': cm['processes']['p1'].get_schema()['S']['n']['_default'],
           'p0': cm['processes']['p0'].get_schema()['S']['n']['_default']}
    V.check('override_reaches_named_only', got == {'sub.q': 61, 'p1': 62, 'p0': 63},
            lambda: ('one override naming three processes (the nested one first): defaults of S.n', got))
    # the same composer, configured with the override, generated through a MetaComposer
    from vivarium.core.composer import MetaComposer
    found.clear()
    try:
        mcomp = MetaComposer(composers=[C(dict(cfg, _schema=nested_ov))]).generate()
        walk(mcomp['processes'])
        walk(mcomp['steps'])
        wrong = {'.'.join(p): d for p, d in found.items() if (d == 42) != (p == tpath)}
        V.check('override_reaches_named_only', not wrong and tpath in found,
                lambda: ('schema override for %s configured on a composer held by a MetaComposer: default of S.n per process '
                         '(42 = overridden)' % target, {'.'.join(p): d for p, d in found.items()}))
    except Exception as ex:
        V.check('override_reaches_named_only', False,
                ('MetaComposer.generate() raised for a composer configured with a _schema naming %s' % target,
                 type(ex).__name__, str(ex)[:200]))
    # a composer configured with a _schema of its own, generated at two paths; a later override names one of them
    comp2 = C(dict(cfg, _schema={'p0': {'S': {'n': {'_emit': False}}}}))
    full = Composite({})
    full.merge(composite=comp2.generate(path=('a',)))
    full.merge(composite=comp2.generate(path=('b',)))
    before = copy.deepcopy(comp2.schema_override)
    full.merge(schema_override={'a': {'p0': {'S': {'n': {'_default': 42}}}}})
    da = full['processes']['a']['p0'].get_schema()['S']['n']
    db = full['processes']['b']['p0'].get_schema()['S']['n']
    dl = comp2.generate()['processes']['p0'].get_schema()['S']['n']
    # the same composer inside a MetaComposer: its _schema still reaches its process
    from vivarium.core.composer import MetaComposer
    dm = MetaComposer(composers=[C(dict(cfg, _schema={'p0': {'S': {'n': {'_default': 43}}}}))]).generate()
    dm = dm['processes']['p0'].get_schema()['S']['n']
    V.check('override_reaches_named_only', dm.get('_default') == 43,
            lambda: ('a composer\'s _schema is lost when the composer is used through a MetaComposer', dm))
    V.check('override_reaches_named_only', da.get('_default') == 42 and db.get('_default') == 1 and dl.get('_default') == 1 and
            comp2.schema_override == before,
            lambda: ('an override naming a/p0 also reached b/p0, the composer\'s own _schema or a later generate()',
                     da, db, dl, comp2.schema_override))


def _first_diff(a, b):
    for t in sorted(set(a) | set(b)):
        if a.get(t) != b.get(t):
            return (t, a.get(t), b.get(t))
    return None


def _snapdiff(a, b, p=()):
    out = []
    if isinstance(a, dict) and isinstance(b, dict):
        for k in set(a) | set(b):
            if k not in a or k not in b:
                out.append(('/'.join(map(str, p + (k,))), 'key added' if k in b else 'key removed'))
            else:
                out += _snapdiff(a[k], b[k], p + (k,))
        return out[:5]
    if isinstance(a, tuple) and isinstance(b, tuple) and a and b and a[0] == 'D' and b[0] == 'D':
        if a[1] != b[1]:
            out.append(('/'.join(map(str, p)), 'dictionary replaced'))
        return out + _snapdiff(a[2], b[2], p)
    return [] if a == b else [('/'.join(map(str, p)), 'changed')]


MANIFEST = {
    'text': 'Exploration: generated composers and merge sequences. Embedding: structure and emitted trajectory of generate(path=p) vs the root composite re-rooted under p; merging: identity/structure snapshots of every merged-in composite and template before and after the whole sequence, merged result vs an independent union model; loading: composite / parts / store entry points with one explicit initial state must emit identical trajectories; overrides: schema read back from every process; MetaComposer overlap.',
    'note': 'Self-contained topologies; deterministic dyadic workloads; trusts the union model in checks/c16.py.',
    'technique': 'runtime monitoring: before/after object-graph snapshots of composites + differential runs across entry points and embedding paths',
}
