"""C18 - timeseries and query views of emitted data lose nothing.

Monitor shape: generated raw histories are emitted through a real RAMEmitter;
every accessor (raw data, deserialized data, embedded / path timeseries, query
forms, free conversion functions) is compared cell by cell with the rows that
were handed to emit()."""
import copy

from vmon.util import T, leaves, Viol

ID = 'C18'
LEVEL = 'exploration'
RULE = ('histories of 1-7 rows over a generated shape (nesting <=4, 1-4 keys per level); each variable '
        'has one kind across times: plain values drawn from {0, False, "", [], 0.0, ints, floats, '
        'strings, bools, lists} or a quantity with a fixed unit; emitted through RAMEmitter; queries = '
        'random subsets of leaf paths, plus nonexistent paths and (sometimes) one disjoint branch path; '
        'non-trivial = >=2 rows, >=2 variables, and at least one falsy value or quantity; distinct = '
        'distinct case spec')
PLAN = {'quick': {'n': 20000, 'min_cases': 1000}, 'thorough': {'n': 200000, 'min_cases': 20000}}
REQUIRED_ORACLES = ['time_vector', 'embedded_values', 'path_values', 'query_raw', 'query_timeseries',
                    'readback']
ANCHORS = ['vivarium.core.emitter:timeseries_from_data', 'vivarium.core.emitter:path_timeseries_from_data',
           'vivarium.core.emitter:path_timeseries_from_embedded_timeseries',
           'vivarium.core.emitter:RAMEmitter.get_data', 'vivarium.core.emitter:RAMEmitter.emit',
           'vivarium.library.dict_utils:value_in_embedded_dict', 'vivarium.library.dict_utils:make_path_dict']
ASSUMPTIONS = ['every variable exists at every emitted time and keeps one kind (plain or one unit)',
               'dictionary-valued variables are not generated (indistinguishable from branches); None-valued ones only in the query family (in a timeseries None cannot be told from absence)']

FALSY = [0, False, '', [], 0.0]
PLAIN = FALSY + [1, 7, -3, 2.5, -0.125, 'x', 'abc', True, [1, 2], [0], ['a', 'b'], 1e10,
                 # sequences that start with a plain number and hold a quantity further on
                 [1, {'__q__': 1.5, 'u': 'femtogram'}], [0, 2.5, {'__q__': 3, 'u': 'second'}]]
UNITS = ['femtogram', 'millimolar', 'micrometer', 'second', 'nanometer']


def shape(r, depth, maxd):
    d = {}
    # below the top level a variable may have any name, including 'time' (the name of the time vector's key)
    names = ['a', 'b', 'c', 'd', 'e'] + (['time', 'value'] if depth > 1 else [])
    for k in r.sample(names, r.randint(1, 3)):
        if depth < maxd and r.random() < 0.4:
            d[k] = shape(r, depth + 1, maxd)
        else:
            d[k] = {'q': r.choice(UNITS)} if r.random() < 0.25 else {'p': r.choice(['falsy', 'any', 'any'])}
    return d


def is_kind(x):
    return isinstance(x, dict) and set(x) <= {'q', 'p'} and len(x) == 1 and not isinstance(list(x.values())[0], dict)


def shape_leaves(sh, p=()):
    out = {}
    for k, v in sh.items():
        if is_kind(v):
            out[p + (k,)] = v
        else:
            out.update(shape_leaves(v, p + (k,)))
    return out


def branches(sh, p=()):
    out = []
    for k, v in sh.items():
        if not is_kind(v):
            out.append(p + (k,))
            out += branches(v, p + (k,))
    return out


def fill(sh, r):
    out = {}
    for k, v in sh.items():
        if is_kind(v):
            if 'q' in v:
                out[k] = {'__q__': r.choice([0, 0.0, 1.5, -2.25, 3, 1e-9]), 'u': v['q']}
            else:
                out[k] = copy.deepcopy(r.choice(FALSY if v['p'] == 'falsy' or r.random() < 0.3 else PLAIN))
        else:
            out[k] = fill(v, r)
    return out


def gen_none(r):
    """Histories in which some emitted values are None (what the RAM emitter keeps of nan and inf): only the
    query views are judged (in the timeseries views None cannot be told from absence)."""
    sh = shape(r, 1, 3)
    lp = list(shape_leaves(sh))
    times = [float(k) for k in range(r.randint(1, 5))]
    rows = []
    for _ in times:
        row = fill(sh, r)
        for p in lp:
            if r.random() < 0.35:
                node = row
                for k in p[:-1]:
                    node = node[k]
                if not isinstance(node[p[-1]], dict):
                    node[p[-1]] = None
        rows.append(row)
    return {'family': 'query_none', 'shape': sh, 'times': times, 'rows': rows,
            'query': [list(p) for p in r.sample(lp, r.randint(1, len(lp)))]}


def run_none(spec):
    from vivarium.core.emitter import RAMEmitter
    from vmon.util import flat
    V = Viol()
    plain = [p for p, k in shape_leaves(spec['shape']).items() if 'q' not in k]
    q = [T(p) for p in spec['query'] if T(p) in plain]
    if not q:
        return {'viol': [], 'evals': {}, 'nontrivial': False}
    em = RAMEmitter({})
    for t, row in zip(spec['times'], spec['rows']):
        row = copy.deepcopy(row)
        for p, k in shape_leaves(spec['shape']).items():
            if 'q' in k:            # quantities are left out of this family
                node = row
                for x in p[:-1]:
                    node = node[x]
                node.pop(p[-1], None)
        em.emit({'table': 'history', 'data': dict(row, time=t)})
    try:
        qd = em.get_data(q)
        for t, row in zip(spec['times'], spec['rows']):
            fr = flat(row)
            exp = {p: fr[p] for p in q}
            got = flat(qd.get(t, {}))
            V.check('query_raw', got == exp and all(type(got[p]) is type(exp[p]) for p in exp),
                    lambda: ('get_data(query) row at t=%r: queried variables with their emitted values (None included)' % t,
                             {'/'.join(p): v for p, v in exp.items()}, {'/'.join(p): v for p, v in got.items()}))
    except Exception as e:
        V.check('no_exception', False, ('query raised', type(e).__name__, str(e)[:200]))
    return {'viol': list(V), 'evals': V.evals, 'nontrivial': any(v is None for row in spec['rows'] for v in flat(row).values()),
            'classes': ['query_none'], 'summary': {'rows': len(spec['times'])}}


def gen(r, tier, i):
    if r.random() < 0.06:
        return gen_none(r)
    maxd = 3 if tier == 'quick' else 4
    sh = shape(r, 1, maxd)
    n = r.randint(1, 7)
    t = r.choice([0, 0.0, 1.0, 10])
    times = []
    for _ in range(n):
        times.append(t)
        t = t + r.choice([1, 0.5, 0.25, 2, 1.0])
    if r.random() < 0.2 and len(times) > 2:
        r.shuffle(times)          # rows reach the emitter out of time order (two streams into one emitter)
    rows = [fill(sh, r) for _ in times]
    lp = list(shape_leaves(sh))
    split_emit = r.random() < 0.25
    query = [list(p) for p in r.sample(lp, r.randint(1, len(lp)))]
    extra = []
    if r.random() < 0.3:
        extra.append(['zz'] if r.random() < 0.5 else list(r.choice(lp)[:-1]) + ['nope'])
    br = [b for b in branches(sh) if not any(tuple(q[:len(b)]) == b for q in query)]
    if br and r.random() < 0.3:
        extra.append(list(r.choice(br)))
    return {'split_emit': split_emit, 'shape': sh, 'times': times, 'rows': rows, 'query': query, 'extra_query': extra,
            'embed': r.choice([[], [], [], ['x'], ['x', 'y']])}


def realise(row, units):
    out = {}
    for k, v in row.items():
        if isinstance(v, dict) and '__q__' in v:
            out[k] = v['__q__'] * getattr(units, v['u'])
        elif isinstance(v, dict):
            out[k] = realise(v, units)
        elif isinstance(v, list):
            out[k] = [x['__q__'] * getattr(units, x['u']) if isinstance(x, dict) and '__q__' in x else copy.deepcopy(x) for x in v]
        else:
            out[k] = copy.deepcopy(v)
    return out


def same(a, b):
    if hasattr(a, 'units') or hasattr(b, 'units'):
        return hasattr(a, 'units') and hasattr(b, 'units') and a.units == b.units and \
            a.magnitude == b.magnitude
    if isinstance(a, list):
        return isinstance(b, list) and len(a) == len(b) and all(same(x, y) for x, y in zip(a, b))
    if isinstance(a, dict):
        return isinstance(b, dict) and a.keys() == b.keys() and all(same(a[k], b[k]) for k in a)
    return type(a) is type(b) and a == b


def ts_key(path, kind, units):
    if 'q' in kind:
        return path[:-1] + ((path[-1], str(getattr(units, kind['q']))),)
    return path


def dig(d, path):
    for k in path:
        if not isinstance(d, dict) or k not in d:
            return KeyError
        d = d[k]
    return d


def run(spec):
    if spec.get('family') == 'query_none':
        return run_none(spec)
    import vivarium  # noqa
    from vivarium.core.emitter import (RAMEmitter, timeseries_from_data, path_timeseries_from_data,
                                       path_timeseries_from_embedded_timeseries)
    from vivarium.library.units import units
    V = Viol()
    sh = spec['shape']
    times = spec['times']
    embed = T(spec.get('embed', []))
    kinds = {embed + p: k for p, k in shape_leaves(sh).items()}
    rows = [realise(r, units) for r in spec['rows']]
    em = RAMEmitter({'embed_path': embed} if embed else {})
    for t, row in zip(times, rows):
        keys = sorted(row)
        if spec.get('split_emit') and len(keys) >= 2:
            # two streams into one emitter: each time arrives in two emits carrying different variables
            half = len(keys) // 2
            for part in (keys[:half], keys[half:]):
                em.emit({'table': 'history', 'data': dict(copy.deepcopy({k: row[k] for k in part}), time=t)})
        else:
            em.emit({'table': 'history', 'data': dict(copy.deepcopy(row), time=t)})
    # time -> {path: value}; with an embed_path every row is stored under that path
    given = {t: {embed + p: v for p, v in leaves_q(row).items()} for t, row in zip(times, rows)}
    rows = [nest_under(embed, row) for row in rows]

    def mag(v):
        return v.magnitude if hasattr(v, 'units') else v

    def check_series(name_e, name_p, emb, pts, paths, tms):
        tv = emb.get('time')
        ascending = tms == sorted(tms)
        V.check('time_vector', isinstance(tv, list) and pts.get('time') == tv and
                (tv == tms if ascending else sorted(tv) == sorted(tms)),
                ('time vector', tv, tms))
        if not (isinstance(tv, list) and sorted(tv) == sorted(tms)):
            return
        for p in paths:
            k = ts_key(p, kinds[p], units)
            exp = [mag(given[t][p]) for t in tv]        # aligned one-to-one with the time vector
            got = dig(emb, k)
            V.check(name_e, got is not KeyError and same(got, exp),
                    lambda: ('embedded timeseries', list(k), repr(got), repr(exp)))
            got = pts.get(k, KeyError)
            V.check(name_p, got is not KeyError and same(got, exp),
                    lambda: ('path timeseries', list(k), repr(got), repr(exp)))
        extra = set(pts) - {ts_key(p, kinds[p], units) for p in paths} - {'time'}
        V.check(name_p, not extra, ('path timeseries lists variables that were not emitted/queried', sorted(map(str, extra))))

    try:
        raw = em.get_data()
        des = em.get_data_deserialized()
        V.check('raw_times', sorted(raw) == sorted(times) and list(des) == list(raw), ('raw data times', list(raw), times))
        for t in times:
            V.check('readback', same(leaves_q(des[t]), given[t]),
                    lambda: ('deserialized row differs from emitted row', t, repr(des[t]), repr(given[t])))
        emb = em.get_timeseries()
        pts = em.get_path_timeseries()
        check_series('embedded_values', 'path_values', emb, pts, list(kinds), times)
        # free functions on the deserialized raw data
        emb2 = timeseries_from_data(copy.deepcopy(des))
        V.check('free_functions', same(strip(emb2), strip(emb)), 'timeseries_from_data differs from get_timeseries')
        pts2 = path_timeseries_from_data(copy.deepcopy(des))
        pts3 = path_timeseries_from_embedded_timeseries(copy.deepcopy(emb2))
        V.check('free_functions', same(strip(pts2), strip(pts)) and same(strip(pts3), strip(pts)),
                'path_timeseries_from_* differ from get_path_timeseries')
        # cell-by-cell read back from both series forms
        tvec = emb.get('time') if isinstance(emb.get('time'), list) and sorted(emb.get('time')) == sorted(times) else times
        for i, t in enumerate(tvec):
            for p in kinds:
                k = ts_key(p, kinds[p], units)
                a = dig(emb, k)
                b = pts.get(k)
                ok = isinstance(a, list) and isinstance(b, list) and len(a) == len(times) == len(b) and \
                    same(a[i], mag(given[t][p])) and same(b[i], mag(given[t][p]))
                V.check('readback', ok, lambda: ('cell', t, list(p)))
        # queries
        q = [embed + T(p) for p in spec['query']]
        xq = [embed + T(p) for p in spec['extra_query']]
        qd = em.get_data(q + xq)
        for t in times:
            got = qd.get(t, KeyError)
            exp = {p: given[t][p] for p in q}
            for b in xq:
                sub = dig(rows[times.index(t)], b)
                if isinstance(sub, dict):
                    exp.update({b + s: v for s, v in leaves_q(sub).items()})
            ok = got is not KeyError and same_raw(leaves(got), exp, units)
            V.check('query_raw', ok, lambda: ('get_data(query) row', t, [list(p) for p in q + xq],
                                              repr(got), repr(exp)))
        qdes = em.get_data_deserialized(q)
        for t in times:
            got = qdes.get(t, KeyError)
            V.check('query_deserialized', got is not KeyError and same(leaves_q(got), {p: given[t][p] for p in q}),
                    lambda: ('get_data_deserialized(query) row', t, repr(got)))
        embq = em.get_timeseries(q)
        ptsq = em.get_path_timeseries(q)
        check_series('query_timeseries', 'query_timeseries', embq, ptsq, q, times)
    except Exception as e:
        import traceback
        V.check('no_exception', False, ('accessor raised', type(e).__name__, str(e)[:200],
                                        traceback.format_exc()[-400:]))
    falsy = any(v in FALSY for row in given.values() for v in row.values() if not hasattr(v, 'units'))
    quant = any('q' in k for k in kinds.values())
    return {'viol': list(V), 'evals': V.evals, 'stats': {'rows': len(times), 'variables': len(kinds)},
            'nontrivial': len(times) >= 2 and len(kinds) >= 2 and (falsy or quant),
            'classes': ['falsy' if falsy else 'no_falsy', 'quantity' if quant else 'no_quantity',
                        'extra_query' if spec['extra_query'] else 'leaf_query'],
            'summary': {'rows': len(times), 'variables': len(kinds), 'queried': len(spec['query'])}}


def nest_under(path, d):
    for k in reversed(path):
        d = {k: d}
    return d


def leaves_q(d, p=()):
    """Leaves of a row, quantities and lists kept whole."""
    out = {}
    for k, v in d.items():
        if isinstance(v, dict):
            out.update(leaves_q(v, p + (k,)))
        else:
            out[p + (k,)] = v
    return out


def same_raw(got, exp, units):
    """Raw (serialised) leaves against emitted values: quantities appear as strings."""
    if got.keys() != exp.keys():
        return False
    for p, v in exp.items():
        g = got[p]
        if hasattr(v, 'units'):
            if not (isinstance(g, str) and g == '!units[%s]' % str(v)):
                return False
        elif isinstance(v, list) and any(hasattr(x, 'units') for x in v):
            # a sequence holding quantities: element by element
            if not (isinstance(g, list) and len(g) == len(v) and all(
                    (isinstance(a, str) and a == '!units[%s]' % str(b)) if hasattr(b, 'units') else same(a, b)
                    for a, b in zip(g, v))):
                return False
        elif not same(g, v):
            return False
    return True


def strip(d):
    return d


MANIFEST = {
    'text': 'Exploration: thousands of generated raw histories (falsy values, quantities, nesting) are emitted through a real RAMEmitter; every accessor and conversion function is compared cell by cell with the emitted rows, for the full data and for random query sets.',
    'note': 'Variables exist at every time with one kind; dict/None-valued variables not generated; trusts the cell-by-cell comparison in checks/c18.py.',
    'technique': 'runtime monitoring: emitted rows recorded at the emitter boundary vs every accessor view, over generated histories and queries',
}
