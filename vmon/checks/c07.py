"""C07 - a process sees exactly its declared variables, always from the current hierarchy.

Monitor shape: viewer processes / steps compare, inside every callback
(calculate_timestep, update_condition, next_update), the states dictionary they
are handed with a from-scratch projection of the live hierarchy (static cases:
resolver R2 over generated topologies; dynamic cases: glob viewers while a
director adds, deletes, generates, divides and moves children)."""
import copy

from vmon.util import Viol, flat, nest
from vmon import topo

ID = 'C07'
LEVEL = 'exploration'
RULE = ('static class: topology cases as in C06 (every port kind incl. glob, output-only and ** ports, ".." paths, '
        'stores holding extra variables declared by an owner process), probe observed at all three callbacks over '
        '2 ticks while its own updates change the values; dynamic class: two glob stores with cells (process + '
        'flow steps + optional legacy deriver), a director (timed process or step) running scripts of 1-6 '
        'structural operations (_divide with explicit or copied processes, _delete by key or path, _generate, '
        '_move, _add) with cell updates in flight, timed and step viewers at depth 0-1; non-trivial = static: '
        '>=2 ports and an extra variable or glob children; dynamic: >=2 structural operations applied and >=10 '
        'view comparisons; distinct = distinct case spec')
PLAN = {'quick': {'n': 9000, 'min_cases': 600}, 'thorough': {'n': 120000, 'min_cases': 12000}}
REQUIRED_ORACLES = ['static_view_shape', 'view_is_projection', 'no_exception']
ANCHORS = ['vivarium.core.store:Store.schema_topology', 'vivarium.core.store:Store.build_topology_views',
           'vivarium.core.store:view_values', 'vivarium.core.store:Store._apply_subschema_path',
           'vivarium.core.store:Store.apply_update', 'vivarium.core.engine:Engine._process_state',
           'vivarium.core.engine:Engine._send_updates', 'vivarium.core.engine:Engine.run_steps']
ASSUMPTIONS = ['views are checked in serial mode (parallel equivalence is C13)',
               'the projection oracle is the resolver R2 / the declared glob shape applied to Engine.state.get_value()']


def gen(r, tier, i):
    if r.random() < 0.06:
        # cells moved by a source path of two keys: they arrive below the target store, under a glob
        # store whose viewer declares a variable the cells' own processes do not
        n = r.choice([2, 3, 4])
        return {'class': 'deepmove', 'cells': n, 'moves': sorted(r.sample(range(1, 6), r.choice([1, 2, min(3, n)]))),
                'viewer_ts': r.choice([0.5, 1.0, 2.0]), 'world_glob': r.random() < 0.3, 'viewer_as': r.choice(['process', 'step']),
                'preset': r.random() < 0.5, 'colony': r.choice(['colonyA', 'cells'])}
    if r.random() < 0.45:
        case = topo.gen_case(r, maxports=4)
        case['class'] = 'static'
        case['entry'] = r.choice(['parts', 'parts', 'composite', 'store', 'store_init'])
        case['expand'] = r.random() < 0.4
        return case
    from vmon import structw
    return _no_moves_with_peers({'class': 'dynamic', 'cell_ts': r.choice([0.5, 1.0, 1.5, 0.75]), 'dir_as': r.choice(['process', 'step']),
            'script': structw.gen_script(r), 'base': r.choice([[], [], ['env']]),
            'deriver': r.choice([None, 'steps', 'processes']), 'dir_subtopo': r.random() < 0.25, 'dir_first': r.random() < 0.4, 'viewer_ts': r.choice([0.25, 0.5, 1.0, 1.5, 2.0, 3.0]), 'poke': r.random() < 0.5, 'nested_cells': r.random() < 0.4, 'peers': r.random() < 0.3, 'named_viewer': r.random() < 0.3,
            'run': r.choice([6.0, 8.0, 10.0]),
            # the caller's own loop: unforced run_for() calls (processes wait across their ends), then one update()
            'chunks': [r.choice([0.75, 1.0, 1.25, 2.5]) for _ in range(r.choice([0, 0, 2, 3, 4]))]})


def _no_moves_with_peers(spec):
    """A peer process is wired out of its cell (to the store holding the cell): moving the cell re-points that
    wiring to a store where nothing declares the peer's variable. That combination is left out (moves become
    deletions); what is asserted with peers is generation, division, addition and deletion."""
    if spec['peers']:
        for t, ops in spec['script'].items():
            spec['script'][t] = [(['delete', op[1], op[2], 'key'] if op[0] in ('move', 'move_regen') else op) for op in ops]
    return spec


def expected_view(schema, tp, ppath, tree):
    """Projection of the hierarchy on the ports schema (R2)."""
    ref = topo.resolve(schema, tp, ppath[:-1], tree, writes=False)
    out = {}
    for port, sub in schema.items():
        out[port] = {}
    for vp, ap in ref.items():
        node = tree
        for k in ap:
            node = node.get(k, 'MISSING') if isinstance(node, dict) else 'MISSING'
        if len(vp) == 1:
            out[vp[0]] = node
        else:
            cur = out
            for k in vp[:-1]:
                cur = cur.setdefault(k, {})
            cur[vp[-1]] = node
    return out


def run_static(spec, V):
    from vivarium.core.engine import Engine
    from vivarium.core.process import Process
    from vmon.sensors import plain_values
    schema = spec['schema']
    tp = topo.tup(spec['topology'])
    ppath = tuple(spec['ppath'])
    init = topo.init_tree(spec)
    holder = {}
    stats = {'callbacks': 0}

    class Viewer(Process):
        def ports_schema(self):
            return copy.deepcopy(self.parameters['schema'])

        def look(self, states, where):
            e = holder.get('e')
            if e is None or not self.parameters.get('watch'):
                return
            tree = plain_values(e.state.get_value())
            exp = expected_view(schema, tp, ppath, tree)
            stats['callbacks'] += 1
            V.check('static_view_shape', _eq(exp, states),
                    lambda: ('states at %s differs from the projection of the hierarchy on the ports schema' % where,
                             _diff(exp, states)))

        def calculate_timestep(self, states):
            self.look(states, 'calculate_timestep')
            return 1.0

        def update_condition(self, timestep, states):
            self.look(states, 'update_condition')
            return True

        def next_update(self, timestep, states):
            self.look(states, 'next_update')
            # change every viewed leaf so that the next view must be current
            upd = {}
            for p, v in flat(states).items():
                if isinstance(v, int) and not isinstance(v, bool) and p:
                    if isinstance(self.parameters['schema'].get(p[0]), dict) and self.parameters['schema'][p[0]].get('_output'):
                        continue
                    node = upd
                    for k in p[:-1]:
                        node = node.setdefault(k, {})
                    node[p[-1]] = 1
            return upd
    probe = Viewer({'schema': schema, 'watch': True})
    osch, otop = topo.owner_parts(spec)
    procs = nest({ppath: probe})
    tops = nest({ppath: tp})
    if osch:
        owner = Viewer({'schema': osch})
        if spec.get('owner_first'):
            procs = dict({'owner': owner}, **procs)
        else:
            procs['owner'] = owner
        tops['owner'] = otop
    steps = {}
    from vivarium.core.process import Step

    class MemberStep(Step, Viewer):
        pass
    for mpath, msch, mtop, mstep in topo.member_parts(spec):
        inst = (MemberStep if mstep else Viewer)({'schema': msch})
        node = steps if mstep else procs
        for k in mpath[:-1]:
            node = node.setdefault(k, {})
        node[mpath[-1]] = inst
        node = tops
        for k in mpath[:-1]:
            node = node.setdefault(k, {})
        node[mpath[-1]] = mtop
    try:
        entry = spec.get('entry', 'parts')
        # store_schema may expand the hierarchy: a further child of every top-level glob store
        extra_kw = {}
        if spec.get('expand'):
            ss = {}
            for port, sub in schema.items():
                t = tp.get(port)
                if isinstance(sub, dict) and '*' in sub and isinstance(t, tuple) and t and t[-1].startswith('g') and \
                        ppath[:-1] == () and len(t) == 1:
                    star = sub['*']
                    ss[t[-1]] = {'cz': ({'_default': 5, '_value': 5} if '_default' in star else
                                        {k: {'_default': 5, '_value': 5} for k in star})}
            if ss:
                extra_kw['store_schema'] = ss
        if entry == 'parts':
            e = Engine(processes=procs, steps=steps or None, topology=tops, initial_state=copy.deepcopy(init), display_info=False, emitter='null', **extra_kw)
        else:
            from vivarium.core.composer import Composite
            if entry == 'composite':
                e = Engine(composite=Composite({'processes': procs, 'steps': steps, 'topology': tops, 'state': copy.deepcopy(init)}),
                           display_info=False, emitter='null', **extra_kw)
            elif entry == 'store':
                c = Composite({'processes': procs, 'steps': steps, 'topology': tops})
                e = Engine(store=c.generate_store({'initial_state': copy.deepcopy(init)}), display_info=False, emitter='null', **extra_kw)
            else:
                # the store is generated first; the initial state (which names the glob children) comes with the engine
                c = Composite({'processes': procs, 'steps': steps, 'topology': tops})
                e = Engine(store=c.generate_store({}), initial_state=copy.deepcopy(init), display_info=False, emitter='null', **extra_kw)
        holder['e'] = e
        e.update(2.0)
        V.check('no_exception', True)
    except Exception as ex:
        import traceback
        V.check('no_exception', False, ('engine raised', type(ex).__name__, str(ex)[:200], traceback.format_exc()[-300:]))
    extra = bool(spec.get('owned'))
    globc = any(k in ('glob', 'globdict') for k in spec['kinds'])
    return stats, len(schema) >= 2 and (extra or globc), sorted({'kind_' + k for k in spec['kinds']} | {'static'})


def run_dynamic(spec, V):
    from vmon import structw
    from vmon.sensors import Mon, drive
    m = Mon()
    Mon.cur = m
    stats = {'struct_ops': 0, 'view_checks': 0}
    try:
        e, comp = structw.build(spec)
        chunks = [c for c in spec.get('chunks', [])]
        calls = [[c, False] for c in chunks] + [[max(1.0, spec['run'] - sum(chunks)), 'update']]
        ok, exc = drive(e, m, calls, lambda iv: 4000)
        V.check('no_exception', ok, lambda: ('engine raised during a structural history', repr(exc)[:300],
                                             [ev[1] for ev in m.events if ev[0] == 'struct'][-3:]),
                mechanism=None)
    except Exception as ex:
        import traceback
        V.check('no_exception', False, ('constructor raised', type(ex).__name__, str(ex)[:200], traceback.format_exc()[-300:]))
    finally:
        Mon.cur = None
    n = getattr(m, 'view_checks', 0)
    V.count('view_is_projection', n)
    for o in m.online[:5]:
        V.append({'oracle': o['oracle'], 'detail': o['detail'], 'mechanism': None})
    ops = sum(len(ev[1]) for ev in m.events if ev[0] == 'struct')
    stats['struct_ops'] = ops
    stats['view_checks'] = n
    kinds = sorted({'op_' + op[0] for ev in m.events if ev[0] == 'struct' for op in ev[1]})
    return stats, ops >= 2 and n >= 10, kinds + ['dynamic', 'dir_' + spec['dir_as']]


def run_deepmove(spec, V):
    from vivarium.core.engine import Engine
    from vivarium.core.process import Process, Step
    from vmon.sensors import plain_values
    col = spec['colony']
    holder = {}
    stats = {'struct_ops': 0, 'view_checks': 0}

    class Grow(Process):
        def ports_schema(self):
            return {'internal': {'mass': {'_default': 1.0, '_updater': 'accumulate'}}}

        def next_update(self, timestep, states):
            return {'internal': {'mass': 0.125 * timestep}}

    def look(states):
        e = holder.get('e')
        if e is None:
            return
        tree = plain_values(e.state.get_value())
        kids = tree.get('world', {}).get(col, {})
        exp = {'cells': {k: {'x': v.get('x', 'MISSING') if isinstance(v, dict) else 'MISSING'} for k, v in kids.items()}}
        stats['view_checks'] += 1
        V.check('view_is_projection', _eq(exp, states),
                lambda: ('glob viewer of world/%s: states differs from the declared shape over the current children '
                         '(cells arrive by _move with a two-key source path)' % col, _diff(exp, states)))

    schema = {'cells': {'*': {'x': {'_default': 0.5, '_updater': 'set'}}}}

    class ViewP(Process):
        def ports_schema(self):
            return copy.deepcopy(schema)

        def calculate_timestep(self, states):
            return self.parameters['ts']

        def next_update(self, timestep, states):
            look(states)
            return {}

    class ViewS(Step):
        def ports_schema(self):
            return copy.deepcopy(schema)

        def next_update(self, timestep, states):
            look(states)
            return {}

    class WorldView(Process):
        def ports_schema(self):
            return {'world': {'*': {}}}

        def next_update(self, timestep, states):
            return {}

    class Mover(Process):
        calls = 0

        def ports_schema(self):
            return {'nursery': {}, 'world': {}}

        def next_update(self, timestep, states):
            self.calls += 1
            mv = [{'source': (col, 'n%d' % i), 'target': 'world'}
                  for i, t in enumerate(self.parameters['moves']) if t == self.calls]
            stats['struct_ops'] += len(mv)
            return {'nursery': {'_move': mv}} if mv else {}

    n = spec['cells']
    procs = {'mover': Mover({'moves': spec['moves']}),
             'world': {col: {'w0': {'grow': Grow()}}} if spec['preset'] else {},
             'nursery': {col: {'n%d' % i: {'grow': Grow()} for i in range(len(spec['moves']))}}}
    tops = {'mover': {'nursery': ('nursery',), 'world': ('world',)},
            'world': {col: {'w0': {'grow': {'internal': ('internal',)}}}} if spec['preset'] else {},
            'nursery': {col: {'n%d' % i: {'grow': {'internal': ('internal',)}} for i in range(len(spec['moves']))}}}
    steps = {}
    if spec['viewer_as'] == 'process':
        procs['viewer'] = ViewP({'ts': spec['viewer_ts']})
    else:
        steps['viewer'] = ViewS()
    tops['viewer'] = {'cells': ('world', col)}
    if spec['world_glob']:
        procs['wv'] = WorldView()
        tops['wv'] = {'world': ('world',)}
    try:
        e = Engine(processes=procs, steps=steps or None, topology=tops, display_info=False, emitter='null')
        holder['e'] = e
        e.update(7.0)
        V.check('no_exception', True)
    except Exception as ex:
        import traceback
        V.check('no_exception', False, ('engine raised', type(ex).__name__, str(ex)[:200], traceback.format_exc()[-300:]))
    return stats, stats['struct_ops'] >= 1 and stats['view_checks'] >= 4, ['deepmove', 'op_move', 'viewer_' + spec['viewer_as']]


def run(spec):
    V = Viol()
    if spec['class'] == 'static':
        stats, nt, classes = run_static(spec, V)
    elif spec['class'] == 'deepmove':
        stats, nt, classes = run_deepmove(spec, V)
    else:
        stats, nt, classes = run_dynamic(spec, V)
    return {'viol': list(V), 'evals': V.evals, 'stats': stats, 'nontrivial': bool(nt), 'classes': classes,
            'summary': dict(stats, cls=spec['class'])}


def _eq(a, b):
    if isinstance(a, dict) and isinstance(b, dict):
        return a.keys() == b.keys() and all(_eq(a[k], b[k]) for k in a)
    return type(a) is type(b) and a == b


def _diff(a, b, p=()):
    if isinstance(a, dict) and isinstance(b, dict):
        out = []
        for k in sorted(set(a) | set(b), key=str):
            if k not in a or k not in b:
                out.append(('/'.join(map(str, p + (k,))), 'unexpected in view' if k in b else 'missing from view'))
            else:
                out += _diff(a[k], b[k], p + (k,))
        return out[:6]
    return [] if _eq(a, b) else [('/'.join(map(str, p)), 'expected %r' % (a,), 'seen %r' % (b,))]


MANIFEST = {
    'text': 'Exploration: (static) generated hierarchy x schema x topology cases with extra variables in the stores - the probe compares its states argument with the resolver projection at all three callbacks while values change; (dynamic) glob viewers (timed and step, depth 0-1) compare every states argument with a from-scratch projection of Engine.state while a director runs generated scripts of _divide/_delete/_generate/_move/_add with cell updates in flight.',
    'note': 'Serial mode; trusts the resolver R2 and the declared glob shape; reading Engine.state.get_value() from inside callbacks is the observation point.',
    'technique': 'runtime monitoring: in-callback comparison of the states argument with an independent projection of the live hierarchy, under generated structural histories',
}
