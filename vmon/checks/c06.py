"""C06 - a port reads and writes the same store node, for every topology.

Monitor shape: a probe process records the states it is handed and returns an
update giving variable i the increment 2^i (any subset sum identifies which
updates landed); the hierarchy is snapshotted before and after; an independent
resolver (R2) maps every port variable to the node it must read and write."""
import copy

from vmon.util import Viol, flat, nest, T
from vmon import topo

ID = 'C06'
LEVEL = 'exploration'
RULE = ('hierarchy of 2-7 branches (depth <=3) with distinctly valued leaves; a probe process at depth 0-2 with '
        '1-4 ports of kinds: leaf port, dict port (subset of a branch), dict port with _path + variables '
        'remapped elsewhere, full remap dictionary, nested group, glob port (leaf / dict / dict re-mapped by a '
        'sub-topology) over 0-3 children, output-only port, ** port; ".." segments as required by the relative '
        'positions; several ports / variables may hit one store or one node; the update gives variable i the '
        'increment 2^i; non-trivial = >=2 ports and (a ".." segment, a remap, a glob with children, or two '
        'variables on one node); distinct = distinct case spec')
PLAN = {'quick': {'n': 20000, 'min_cases': 1000}, 'thorough': {'n': 200000, 'min_cases': 20000}}
REQUIRED_ORACLES = ['read_is_node_value', 'write_lands_on_node', 'no_other_node_changes', 'colliding_updates_all_applied',
                    'collision_all_applied']
ANCHORS = ['vivarium.core.store:Store._topology_ports', 'vivarium.core.store:Store._establish_path',
           'vivarium.core.store:Store.outer_path', 'vivarium.core.store:Store.schema_topology',
           'vivarium.core.store:Store.build_topology_views', 'vivarium.library.topology:inverse_topology',
           'vivarium.library.topology:normalize_path', 'vivarium.library.dict_utils:deep_merge_multi_update',
           'vivarium.core.store:Store.apply_update']
ASSUMPTIONS = ['well-formed topologies: every port is mentioned; a port mapped to a dictionary without _path lists every variable',
               'generated topologies: all variables use the default accumulate updater on integers; shared-node family: a log updater (keeps every update) or set']


FALSY_POOL = [0, 0.0, False, '', [], 3, 'x', True, 7.5]


def gen_shared(r):
    """2-4 port variables of one process wired to ONE node whose updater keeps every update it is given
    (a log); the updates include falsy values."""
    n = r.randint(2, 4)
    return {'family': 'shared_node', 'n': n, 'values': [copy.deepcopy(r.choice(FALSY_POOL)) for _ in range(n)],
            'node': r.choice([['t'], ['b', 't'], ['b', 'c', 't']]), 'pdepth': r.randint(0, 2),
            'form': r.choice(['leaf_ports', 'dict_port', 'dict_port_path']), 'updater': r.choice(['log', 'log', 'set'])}


def _log_updater(current, update):
    return current + [update]


def run_shared(spec):
    from vivarium.core.engine import Engine
    from vivarium.core.process import Process
    V = Viol()
    node = tuple(spec['node'])
    ploc = tuple(['q%d' % k for k in range(spec['pdepth'])])
    rel = tuple(['..'] * len(ploc)) + node
    n = spec['n']
    leaf = {'_default': [] if spec['updater'] == 'log' else 'init', '_updater': _log_updater if spec['updater'] == 'log' else 'set'}
    if spec['form'] == 'leaf_ports':
        schema = {'a%d' % k: dict(leaf) for k in range(n)}
        topology = {'a%d' % k: rel for k in range(n)}
        update = {'a%d' % k: copy.deepcopy(spec['values'][k]) for k in range(n)}
    else:
        schema = {'D': {'v%d' % k: dict(leaf) for k in range(n)}}
        if spec['form'] == 'dict_port':
            topology = {'D': dict({'v%d' % k: rel for k in range(n)})}
        else:
            topology = {'D': dict({'_path': rel[:-1]}, **{'v%d' % k: (rel[-1],) for k in range(n)})}
        update = {'D': {'v%d' % k: copy.deepcopy(spec['values'][k]) for k in range(n)}}

    class Many(Process):
        def ports_schema(self):
            return copy.deepcopy(schema)

        def next_update(self, timestep, states):
            return copy.deepcopy(update)
    procs, tops = {'many': Many({'timestep': 1.0})}, {'many': topology}
    for k in reversed(ploc):
        procs, tops = {k: procs}, {k: tops}
    try:
        e = Engine(processes=procs, topology=tops, display_info=False, emitter='null')
        e.update(1.0)
        st = e.state.get_value()
        got = st
        for k in node:
            got = got[k]
    except Exception as ex:
        import traceback
        V.check('collision_all_applied', False, ('shared-node case raised', type(ex).__name__, str(ex)[:200], traceback.format_exc()[-300:]))
        return {'viol': list(V), 'evals': V.evals, 'nontrivial': False}
    key = lambda v: (type(v).__name__, repr(v))
    if spec['updater'] == 'log':
        V.check('collision_all_applied', sorted(map(key, got)) == sorted(map(key, spec['values'])),
                lambda: ('%d port variables wired to one node (%s): the node logged %r, the updates were %r' % (
                    n, spec['form'], got, spec['values'])))
    else:
        # set: the node holds one of the updates (which one is applied last is not specified), not the initial value
        V.check('collision_all_applied', key(got) in [key(v) for v in spec['values']],
                lambda: ('%d set-updates to one node (%s): node holds %r, updates in port order were %r' % (
                    n, spec['form'], got, spec['values'])))
    return {'viol': list(V), 'evals': V.evals, 'nontrivial': any(not v for v in spec['values']),
            'classes': ['shared_node_' + spec['form']], 'summary': {'values': len(spec['values'])}}


def gen_watchers(r):
    """2-3 processes view the children of one store through glob ports whose sub-topologies map the same
    port variable (under one nested key) to different nodes of the child."""
    n = r.randint(2, 3)
    return {'family': 'glob_subtopology', 'n': n, 'children': ['c%d' % k for k in range(r.randint(1, 3))],
            'nested': r.random() < 0.7, 'ticks': r.randint(1, 3), 'order': r.sample(range(n), n)}


def run_watchers(spec):
    from vivarium.core.engine import Engine
    from vivarium.core.process import Process
    V = Viol()
    n = spec['n']

    class Watch(Process):
        def ports_schema(self):
            x = {'x': {'_default': 0}}
            return {'agents': {'*': {'inner': x} if spec['nested'] else x}}

        def next_update(self, timestep, states):
            inc = self.parameters['inc']
            self.seen = copy.deepcopy(states)
            return {'agents': {k: ({'inner': {'x': inc}} if spec['nested'] else {'x': inc}) for k in states['agents']}}

    class Owner(Process):
        def ports_schema(self):
            return {'s': {'n%d' % j: {'_default': 0} for j in range(n)}}

        def next_update(self, timestep, states):
            return {}
    procs, tops, given = {}, {}, {}
    for j in spec['order']:
        # (a '_path' directly inside '*' would name the glob store itself, so the flat form spells the node out)
        sub = {'_path': ('s',), 'x': ('n%d' % j,)}
        t = {'agents': {'_path': ('agents',), '*': {'inner': sub} if spec['nested'] else {'x': ('s', 'n%d' % j)}}}
        procs['w%d' % j] = Watch({'inc': 10 ** j, 'timestep': 1.0})
        tops['w%d' % j] = t
        given[j] = copy.deepcopy(t)
    procs['agents'] = {c: {'o': Owner({'timestep': 1.0})} for c in spec['children']}
    tops['agents'] = {c: {'o': {'s': ('s',)}} for c in spec['children']}
    try:
        e = Engine(processes=procs, topology=tops, display_info=False, emitter='null')
        for _ in range(spec['ticks']):
            e.update(1.0)
        st = e.state.get_value()['agents']
    except Exception as ex:
        import traceback
        V.check('write_lands_on_node', False, ('glob sub-topology case raised', type(ex).__name__, str(ex)[:200], traceback.format_exc()[-300:]))
        return {'viol': list(V), 'evals': V.evals, 'nontrivial': False}
    for c in spec['children']:
        for j in range(n):
            exp = spec['ticks'] * 10 ** j
            V.check('write_lands_on_node', st[c]['s']['n%d' % j] == exp,
                    lambda: ('watcher %d writes x to child node s/n%d: expected %d after %d ticks, the child holds %r' % (
                        j, j, exp, spec['ticks'], st[c]['s'])))
    for j in range(n):
        w = procs['w%d' % j]
        seen = getattr(w, 'seen', {}).get('agents', {})
        for c in spec['children']:
            got = seen.get(c, {})
            got = got.get('inner', {}).get('x') if spec['nested'] else got.get('x')
            V.check('read_is_node_value', got == (spec['ticks'] - 1) * 10 ** j,
                    lambda: ('watcher %d read %r for child %s, its node s/n%d held %d' % (j, got, c, j, (spec['ticks'] - 1) * 10 ** j)))
    return {'viol': list(V), 'evals': V.evals, 'nontrivial': True, 'classes': ['glob_subtopology'],
            'summary': {'watchers': n}}


def run_neighbours(spec):
    """Dictionary-valued variables (updater merge or dict_value-like user function) that still hold one shared
    default object - the children of a glob store, or two ports declared with one schema dictionary and wired to
    different stores: an update that names one of them changes that node and no other."""
    from vivarium.core.engine import Engine
    from vivarium.core.process import Process
    from vmon.sensors import plain_values
    V = Viol()
    upd = spec['updater']
    common = {'labels': {'_default': {'k': 0}, '_updater': upd, '_emit': True}}

    class Tagger(Process):
        def ports_schema(self):
            return {'cells': {'*': {'tags': {'_default': {'t': 0}, '_updater': upd, '_emit': True}, 'n': {'_default': 0}}},
                    'left': common, 'right': common}

        def next_update(self, timestep, states):
            return {'cells': {spec['target']: {'tags': {'seen': 1}}}, 'left': {'labels': {'x': 1}}}
    wiring = {'cells': ('cells',), 'left': ('left',), 'right': (('..', 'other') if spec['dotdot'] else ('right',))}
    procs, tops = {'tagger': Tagger({'timestep': 1.0})}, {'tagger': wiring}
    if spec['dotdot']:
        procs, tops = {'box': procs}, {'box': tops}
    init = {'cells': {c: {'n': 1} for c in spec['children']}}
    if spec['dotdot']:
        init = {'box': init}
    try:
        e = Engine(processes=procs, topology=tops, initial_state=init, display_info=False, emitter='null')
        for _ in range(spec['ticks']):
            e.update(1.0)
        st = plain_values(e.state.get_value())
        box = st['box'] if spec['dotdot'] else st
        right = st['other'] if spec['dotdot'] else st['right']
        others = {c: box['cells'][c]['tags'] for c in spec['children'] if c != spec['target']}
        V.check('no_other_node_changes', all(v == {'t': 0} for v in others.values()) and right['labels'] == {'k': 0},
                lambda: ('an update naming child %s and port left changed other nodes that held the same default object (updater %s)' % (
                    spec['target'], upd), others, right))
        V.check('write_lands_on_node', box['cells'][spec['target']]['tags'] == {'t': 0, 'seen': 1} and
                box['left']['labels'] == {'k': 0, 'x': 1},
                lambda: ('the named nodes do not hold the merged value', box['cells'][spec['target']], box['left']))
    except Exception as ex:
        V.check('write_lands_on_node', False, ('neighbours case raised', type(ex).__name__, str(ex)[:200]))
    return {'viol': list(V), 'evals': V.evals, 'nontrivial': len(spec['children']) >= 2, 'classes': ['merge_neighbours'],
            'summary': {'children': len(spec['children'])}}


def gen(r, tier, i):
    k = r.random()
    if i % 200 == 13:
        ch = ['c%d' % j for j in range(r.randint(2, 4))]
        return {'family': 'merge_neighbours', 'updater': 'merge', 'children': ch, 'target': r.choice(ch), 'dotdot': r.random() < 0.5,
                'ticks': r.randint(1, 3)}
    if k < 0.04:
        return gen_watchers(r)
    if k < 0.12:
        return gen_shared(r)
    case = topo.gen_case(r, maxports=4 if tier == 'quick' else 5)
    case['run_twice'] = r.random() < 0.3
    case['entry'] = r.choice(['parts', 'parts', 'parts', 'store', 'store_init'])
    case['share_schema'] = r.random() < 0.5
    return case


def make_probe(step=False):
    from vivarium.core.process import Process, Step

    class Probe(Step if step else Process):
        def __init__(self, parameters=None):
            super().__init__(parameters)
            self.seen = []
            self.sent = []

        def ports_schema(self):
            if self.parameters.get('share_schema'):
                return self.parameters['schema']       # the same object on every call
            return copy.deepcopy(self.parameters['schema'])

        def next_update(self, timestep, states):
            self.seen.append(copy.deepcopy(states))
            plan = self.parameters['plan']     # list of [view path, increment]
            upd = {}
            for vp, inc in plan:
                node = upd
                for k in vp[:-1]:
                    node = node.setdefault(k, {})
                node[vp[-1]] = inc
            self.sent.append(plan)
            return upd
    return Probe


def expand(ref, tree):
    """view path -> node, with branch targets ('**' ports) expanded to their leaves."""
    out = {}
    for vp, ap in ref.items():
        node = tree
        for k in ap:
            node = node.get(k, {}) if isinstance(node, dict) else None
        if isinstance(node, dict):
            for sub, _ in flat(node).items():
                if sub and not isinstance(_, dict):
                    out[vp + sub] = ap + sub
        else:
            out[vp] = ap
    return out


def run(spec):
    if spec.get('family') == 'shared_node':
        return run_shared(spec)
    if spec.get('family') == 'glob_subtopology':
        return run_watchers(spec)
    if spec.get('family') == 'merge_neighbours':
        return run_neighbours(spec)
    from vivarium.core.engine import Engine
    from vmon.sensors import plain_values
    V = Viol()
    schema = spec['schema']
    tp = topo.tup(spec['topology'])
    ppath = tuple(spec['ppath'])
    init = topo.init_tree(spec)
    Probe = make_probe()
    schema_before = copy.deepcopy(schema)
    tp_before = copy.deepcopy(tp)
    probe = Probe({'schema': schema, 'plan': [], 'timestep': 1.0, 'share_schema': bool(spec.get('share_schema'))})
    osch, otop = topo.owner_parts(spec)
    owner = Probe({'schema': osch, 'plan': [], 'timestep': 1.0})
    procs = nest({ppath: probe})
    tops = nest({ppath: tp})
    if osch:
        if spec.get('owner_first'):
            procs = dict({'owner': owner}, **procs)
        else:
            procs['owner'] = owner
        tops['owner'] = otop
    steps = {}
    for mpath, msch, mtop, mstep in topo.member_parts(spec):
        # passive processes / steps living inside glob children
        inst = (make_probe(True) if mstep else Probe)({'schema': msch, 'plan': [], 'timestep': 1.0})
        node = steps if mstep else procs
        for k in mpath[:-1]:
            node = node.setdefault(k, {})
        node[mpath[-1]] = inst
        node = tops
        for k in mpath[:-1]:
            node = node.setdefault(k, {})
        node[mpath[-1]] = mtop
    stats = {}
    try:
        entry = spec.get('entry', 'parts')
        if entry == 'parts':
            e = Engine(processes=procs, steps=steps or None, topology=tops, initial_state=copy.deepcopy(init), display_info=False,
                       emitter='null')
        else:
            from vivarium.core.composer import Composite
            c = Composite({'processes': procs, 'steps': steps, 'topology': tops})
            if entry == 'store':
                e = Engine(store=c.generate_store({'initial_state': copy.deepcopy(init)}), display_info=False, emitter='null')
            else:
                # the store first, the initial state (which names the glob children) with the engine
                e = Engine(store=c.generate_store({}), initial_state=copy.deepcopy(init), display_info=False, emitter='null')
    except Exception as ex:
        import traceback
        V.check('constructs', False, ('constructor raised for a well-formed topology', type(ex).__name__, str(ex)[:200],
                                      traceback.format_exc()[-300:]))
        return {'viol': list(V), 'evals': V.evals, 'nontrivial': False}
    # the resolver works on the hierarchy as built (glob children, extra variables)
    tree = plain_values(e.state.get_value())
    # every variable of a glob child that the initial state names exists, with its value, at the node the glob
    # port's sub-topology wires it to (what the ports read and write below is the hierarchy as built)
    built = flat(tree)
    lost = {'/'.join(map(str, p)): (v, built.get(tuple(p), 'MISSING')) for p, v in spec['leaves']
            if str(p[0]).startswith('g') and built.get(tuple(p), 'MISSING') != v}
    V.check('read_is_node_value', not lost,
            lambda: ('nodes named in the initial state are missing from the hierarchy as built, or hold another value (given, built)', lost))
    wref = expand(topo.resolve(schema, tp, ppath[:-1], tree, writes=True), tree)
    rref = expand(topo.resolve(schema, tp, ppath[:-1], tree, writes=False), tree)
    order = sorted(wref, key=str)
    plan = [[list(vp), 2 ** i] for i, vp in enumerate(order)]
    probe.parameters['plan'] = plan
    nrounds = 2 if spec.get('run_twice') else 1
    for rnd in range(nrounds):
        before = flat(plain_values(e.state.get_value()))
        try:
            e.update(1.0)
        except Exception as ex:
            import traceback
            V.check('write_lands_on_node', False, ('update raised', type(ex).__name__, str(ex)[:300], traceback.format_exc()[-300:]))
            break
        after = flat(plain_values(e.state.get_value()))
        seen = {p: v for p, v in flat(probe.seen[rnd]).items() if not isinstance(v, dict)}
        exp_seen = {vp: before.get(ap, 'MISSING') for vp, ap in rref.items()}
        bad = {str(k): (exp_seen.get(k), seen.get(k)) for k in set(exp_seen) | set(seen) if exp_seen.get(k) != seen.get(k)}
        V.check('read_is_node_value', not bad,
                lambda: ('value read through a port != value of the node the port is wired to (expected, seen)', bad))
        exp_after = dict(before)
        per_node = {}
        for vp, inc in plan:
            ap = wref[tuple(vp)]
            per_node.setdefault(ap, []).append(inc)
            if ap in exp_after:
                exp_after[ap] = exp_after[ap] + inc
            else:
                exp_after[ap] = 'MISSING-NODE'
        collide = {ap: incs for ap, incs in per_node.items() if len(incs) > 1}
        for ap, incs in collide.items():
            got = after.get(ap)
            V.check('colliding_updates_all_applied', got == before.get(ap, 0) + sum(incs),
                    lambda: ('several port variables wired to node %s: node changed by %r, updates %r' % (
                        '/'.join(ap), None if got is None else got - before.get(ap, 0), incs)),
                    mechanism=None)
        stats['colliding_nodes'] = stats.get('colliding_nodes', 0) + len(collide)
        wrong = {('/'.join(k)): (exp_after.get(k), after.get(k)) for k in set(exp_after) | set(after)
                 if exp_after.get(k) != after.get(k) and k not in collide}
        touched = set(wref.values())
        V.check('write_lands_on_node', not any(tuple(k.split('/')) in touched for k in wrong),
                lambda: ('update did not land on the node its port variable is wired to (expected, actual)',
                         {k: v for k, v in wrong.items() if tuple(k.split('/')) in touched}))
        V.check('no_other_node_changes', not any(tuple(k.split('/')) not in touched for k in wrong),
                lambda: ('a node outside the expected set changed (expected, actual)',
                         {k: v for k, v in wrong.items() if tuple(k.split('/')) not in touched}))
    # (not asserted - the property speaks about nodes, not about the objects handed in - but reported)
    if not (tp == tp_before and probe.parameters['schema'] == schema_before):
        stats['input_objects_modified'] = 1
    dotdot = '..' in repr(spec['topology'])
    remap = any(isinstance(t, dict) for t in spec['topology'].values())
    globc = any(k in ('glob', 'globdict') for k in spec['kinds']) and any(p[0][0].startswith('g') for p in spec['leaves'])
    nt = len(schema) >= 2 and (dotdot or remap or globc or stats.get('colliding_nodes'))
    stats['variables'] = len(wref)
    return {'viol': list(V), 'evals': V.evals, 'stats': stats, 'nontrivial': bool(nt),
            'classes': sorted({'kind_' + k for k in spec['kinds']} | {'depth_%d' % (len(ppath) - 1)} |
                              ({'dotdot'} if dotdot else set()) | ({'collision'} if stats.get('colliding_nodes') else set())),
            'summary': {'ports': len(schema), 'variables': len(wref), 'colliding_nodes': stats.get('colliding_nodes', 0)}}


MANIFEST = {
    'text': 'Exploration: thousands of generated hierarchy x ports-schema x topology cases (every documented topology form, ".." segments, remaps, globs, output ports, collisions) with the probe process at depth 0-2; the states argument and a full before/after diff of the hierarchy are compared with an independent resolver; power-of-two increments identify exactly which updates landed where.',
    'note': 'Trusts the resolver R2 in vmon/topo.py (written from the documentation); well-formed topologies only (every port mentioned, remap dictionaries without _path complete).',
    'technique': 'runtime monitoring: probe process + before/after hierarchy snapshots vs an independent topology resolver',
}
