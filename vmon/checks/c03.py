"""C03 - the clock is monotone and lands exactly on the requested end; run_for
terminates; with a precision every event time lies on the grid.

Monitor shape: online monitor in the clock's property setter (monotonicity,
upper bound, iteration budget = logical non-termination verdict), recording
emitter (row times), and the exact decimal time model for the precision grid."""
from decimal import Decimal as D

from vmon.util import Viol
from vmon import sched

ID = 'C03'
LEVEL = 'exploration'
RULE = ('0-4 ledger processes; classes: plain (always-on, constant or invocation-indexed timesteps), hostile '
        '(timestep answer changes at every poll, conditions never / state flag toggled by other processes / '
        'scripted true-false sequences / built-in _condition path), quiet (no process ever meets its '
        'condition), empty (steps only, no processes), grid (global_time_precision 1-3 with timesteps and '
        'intervals on the 10^-p grid); 1-7 run_for/update calls incl. chunks shorter than every timestep, '
        'forced and unforced, nonzero initial time, emit_step 1 or another grid value; non-trivial = >=2 calls and (>=2 processes or a '
        'hostile/quiet/grid class) and >=5 clock assignments observed; distinct = distinct case spec')
PLAN = {'quick': {'n': 30000, 'min_cases': 2000}, 'thorough': {'n': 400000, 'min_cases': 40000}}
REQUIRED_ORACLES = ['monotone', 'bounded_by_end', 'landing', 'terminates', 'rows_increasing', 'on_grid',
                    'grid_event_times']
ANCHORS = ['vivarium.core.engine:Engine.run_for', 'vivarium.core.engine:Engine.update',
           'vivarium.core.engine:Engine._check_complete']
ASSUMPTIONS = ['processes request positive timesteps', 'precision class: all timesteps/intervals/initial time on the 10^-p grid',
               'termination is a bounded-progress verdict: budget 6*(n+1)*(ceil(interval/ts_min)+2)+100 clock assignments per call']
CASE_LIMIT_S = 120


def gen(r, tier, i):
    cls = r.choice(['plain', 'hostile', 'hostile', 'quiet', 'empty', 'grid', 'grid', 'grid_hostile'])
    prec = None
    grid = 'dyadic'
    if cls.startswith('grid'):
        prec = r.choice([1, 2, 3])
        grid = 'decimal'
    elif r.random() < 0.15:
        grid = 'decimal_noprec'
    n = 0 if cls == 'empty' else r.randint(1, 4)
    gprec = prec if prec else (r.choice([1, 2]) if grid == 'decimal_noprec' else None)
    procs = []
    for pid in range(n):
        hostile = cls in ('hostile', 'grid_hostile')
        p = {'pid': pid, 'ts': sched.gen_ts(r, 'dyadic' if grid == 'dyadic' else 'decimal', gprec, hostile=hostile)}
        if hostile and r.random() < 0.1:
            # a process that asks for an infinite timestep (it only runs when a forced call cuts its interval)
            import math
            if p['ts']['kind'] == 'const':
                p['ts']['v'] = math.inf
            else:
                p['ts']['seq'][r.randrange(len(p['ts']['seq']))] = math.inf
        if cls == 'quiet':
            p['cond'] = 'never'
        elif hostile:
            k = r.random()
            if k < 0.2:
                p['cond'] = 'never'
            elif k < 0.45:
                p['cond'] = 'flag'
            elif k < 0.6:
                p['cond_path'] = True
            elif k < 0.8:
                p['cond'] = {'seq': [r.random() < 0.5 for _ in range(r.randint(2, 6))]}
            p['toggle'] = r.choice([0, 0, 1, 2, 3])
        if pid == 0 and r.random() < 0.15:
            p['tvar'] = True       # the model has an emitted root-level variable of its own called 'time'
        procs.append(p)
    calls = sched.gen_calls(r, 'dyadic' if grid == 'dyadic' else 'decimal', gprec, maxcalls=6,
                            end_with_update=r.random() < 0.5, zero=True)
    calls = sched.cap_events(r, procs, calls, 'dyadic' if grid == 'dyadic' else 'decimal', gprec)
    if grid == 'dyadic':
        t0 = r.choice([0, 0, 0.0, 1.5, 10.0, 100.25])
    else:
        t0 = r.choice([0, 0, float(r.choice(sched.DEC[gprec]['iv']))])
    emit_step = 1
    if r.random() < 0.3:
        emit_step = r.choice([0.5, 2, 0.25, 1.5]) if grid == 'dyadic' else float(r.choice(sched.DEC[gprec]['iv']))
    return {'class': cls, 'grid': grid, 'precision': prec, 'gprec': gprec, 't0': t0, 'procs': procs,
            'ram_embed': i % 40 == 7, 'calls': calls, 'nsteps': (r.choice([0, 1]) if cls == 'empty' else (1 if r.random() < 0.2 else 0)), 'emit_step': emit_step}


def run(spec):
    from vmon.sensors import Mon, drive
    V = Viol()
    m = Mon()
    Mon.cur = m
    try:
        e = sched.build(spec)
    except Exception as ex:
        import traceback
        Mon.cur = None
        V.check('constructs', False, ('constructor raised', type(ex).__name__, str(ex)[:200], traceback.format_exc()[-400:]))
        return {'viol': list(V), 'evals': V.evals, 'nontrivial': False}
    m.eng = e
    ok, exc = drive(e, m, spec['calls'], sched.budget_for(spec))
    Mon.cur = None
    if spec.get('ram_embed') and all(iv > 0 for iv, _ in spec['calls']):
        # (not with empty intervals: a forced empty interval may emit a second row for a time - known finding F1 under
        # C12 - which the RAM emitter refuses to merge)
        # the same schedule once more with the repository's own RAM emitter, told to file its rows under a path
        # (embed_path): every call still returns, and the emit times it keeps are the recorded ones
        m2 = Mon()
        Mon.cur = m2
        try:
            e2 = sched.build(spec, emitter={'type': 'timeseries', 'embed_path': ('cell', '1')})
            m2.eng = e2
            ok2, exc2 = drive(e2, m2, spec['calls'], sched.budget_for(spec))
            V.check('terminates', ok2 == ok, lambda: ('with RAMEmitter(embed_path=...) the call sequence ended differently', repr(exc2)[:300]))
            if ok and ok2:
                rec = sorted({ev[2] for ev in m.events if ev[0] == 'emit' and ev[1] == 'history'})
                V.check('rows_increasing', sorted(e2.emitter.get_data(), key=lambda t: (t is None, t)) == rec,
                        lambda: ('emit times kept by RAMEmitter(embed_path=...) differ from the times of the emitted rows',
                                 list(e2.emitter.get_data())[:8], rec[:8]))
        except Exception as ex:
            V.check('constructs', False, ('run with RAMEmitter(embed_path=...) raised', type(ex).__name__, str(ex)[:200]))
        finally:
            Mon.cur = None
    prec = spec['precision']
    exact = spec['grid'] != 'decimal_noprec'

    # walk the log call by call
    start = None
    end = None
    nsets = 0
    calls_done = 0
    cur_call = None
    last = None          # last observed clock value (any callback, emit, return)

    def observe(t, what):
        # the clock as user code can observe it: inside callbacks, in emitted rows, after returns
        nonlocal last
        if t is None:
            return
        if last is not None:
            V.check('monotone', t >= last, lambda: ('clock went backwards', last, t, what, cur_call))
        last = t
        if end is not None and what != 'ret':
            V.check('bounded_by_end', t <= end, lambda: ('clock passed the end of the interval', t, end, what, cur_call))
        if prec is not None:
            V.check('on_grid', round(t, prec) == t, lambda: ('clock value off the 10^-%d grid' % prec, t, what))

    for ev in m.events:
        if ev[0] == 'call':
            _, kind, interval, force, start = ev
            cur_call = ev
            if prec is not None:
                end = float(D(repr(start)) + D(repr(interval)))
            else:
                end = start + interval
        elif ev[0] == 'set':
            nsets += 1      # one or two per scheduler iteration: counted for the budget only
        elif ev[0] in ('poll', 'cond'):
            observe(ev[2], ev[0])
        elif ev[0] == 'invoke':
            observe(ev[3], 'invoke')
        elif ev[0] in ('apply', 'apply_own'):
            observe(ev[2], 'apply')
        elif ev[0] == 'emit' and ev[1] == 'history':
            observe(ev[2], 'emit')
        elif ev[0] == 'ret':
            calls_done += 1
            observe(ev[1], 'ret')
            V.check('landing', ev[1] == end, lambda: ('global time after the call != start + interval', ev[1], end, cur_call))
            V.check('terminates', True)
        elif ev[0] == 'budget':
            V.check('terminates', False, lambda: ('iteration budget exhausted (non-termination)', ev[1], cur_call,
                                                   [x for x in m.events if x[0] == 'set'][-6:]))
        elif ev[0] == 'exception':
            V.check('no_exception', False, lambda: ('run_for/update raised', ev[1], ev[2], cur_call))
    rows = [ev[2] for ev in m.events if ev[0] == 'emit' and ev[1] == 'history']
    # (a time may repeat only when an empty forced interval completed left-behind processes at a time
    # that already had a row)
    from vmon.sensors import superseded_rows
    sup = superseded_rows(m.events)
    V.check('rows_increasing', all(b > a or (b == a and sup[i]) for i, (a, b) in enumerate(zip(rows, rows[1:]))) and
            (not rows or rows[0] == spec['t0']),
            lambda: ('history row times not strictly increasing from the initial time', rows[:40]))
    if prec is not None:
        V.check('on_grid', all(round(t, prec) == t for t in rows), lambda: ('row time off the grid', rows[:40]))
    # grid class: event times equal the exact decimal sums; coincident events share one time
    if ok and spec['class'] in ('grid', 'plain') and exact:
        grid = 'dyadic' if spec['grid'] == 'dyadic' else 'decimal'
        applied = {}
        for ev in m.events:
            if ev[0] == 'apply' and ev[1][0] != 's0':
                applied.setdefault((ev[1][0], ev[1][1]), []).append(ev[2])
        calls = [(iv, bool(f)) for iv, f in spec['calls']]
        for p in spec['procs']:
            ivs, S, t = sched.model_always_on(p, calls, spec['t0'], grid)
            for k, S_k, E_k, arg in ivs:
                got = applied.get((p['pid'], k), [])
                V.check('grid_event_times', len(got) == 1 and got[0] == float(E_k),
                        lambda: ('update applied at a time != the exact end of its interval', p['pid'], k, got, float(E_k)),
                        mechanism=None)
    nt = len(spec['calls']) >= 2 and (len(spec['procs']) >= 2 or spec['class'] != 'plain') and nsets >= 5
    return {'viol': list(V), 'evals': V.evals, 'stats': {'clock_assignments': nsets, 'rows': len(rows), 'calls_returned': calls_done},
            'nontrivial': nt, 'classes': ['class_' + spec['class'], 'grid_' + spec['grid'], 'emit_step_1' if spec.get('emit_step', 1) == 1 else 'emit_step_other',
                                          'precision_%s' % prec, 't0_nonzero' if spec['t0'] else 't0_zero'],
            'summary': {'clock_assignments': nsets, 'rows': len(rows), 'calls': len(spec['calls'])}}


MANIFEST = {
    'text': 'Exploration: thousands of generated composites per run, incl. hostile ones (timestep answers that change at every poll, quiet and flipping conditions, steps-only engines, chunks shorter than every timestep, precisions 1-3 on decimal grids); an online monitor in the clock setter sees every scheduler iteration (monotone, bounded by the call end, iteration budget = logical non-termination verdict), the recording emitter gives row times, and the exact rational/decimal time model gives the grid times.',
    'note': 'Termination is bounded progress (iteration budget per call), not liveness; exact landing means float start+interval (decimal sum with a precision); trusts the time model R1 in vmon/sched.py.',
    'technique': 'runtime monitoring: online clock-setter invariant monitor + iteration budget + exact time model over generated hostile schedules',
}
