"""C10 - the engine runs exactly what is in the hierarchy after any structural history.

Monitor shape: every invocation of a cell process / step is logged with the
instance identity; a walking emitter records, at every emit, which instances
live where; offline checkers relate invocations to the existence timeline
(no invocation after death, creation-time start, contiguous schedule, steps
exactly once per phase, derived values consistent), compare the published
composite with the hierarchy, and compare a rebuilt engine with the continued
one (differential continuation)."""
import copy

from vmon.util import Viol, prune

ID = 'C10'
LEVEL = 'exploration'
RULE = ('two glob stores with cells (timed ledger process whose timestep 0.5/0.75/1.0/1.5 keeps updates in flight, '
        'flow steps f0 / f1 -> f2 listed in either order, optional nested sub-compartment with a process and flow '
        'steps of its own, optional legacy derivers declared in steps or in processes); a director (timed '
        'process or step, depth 0-1, listed before or after the cells, optionally wired through a sub-topology '
        'or with a second port on one store) runs scripts of 1-6 batches of operations: _divide (explicit or '
        'copied daughter processes), _delete (by key, by path, of a nested sub-compartment by a path of two keys), '
        '_generate (also of a key deleted earlier, of a key vacated by a _move of the same update, of an occupied '
        'key = replacement in place, and followed by its own _delete), _move between the stores, _add; a second '
        'director may generate a key in the batch in which the first deletes it; run 6-10 s, then the '
        'published composite is rebuilt into a second engine and both continue for 3 s; non-trivial = >=2 '
        'operations applied, >=1 with a cell update in flight or a second-generation division, >=20 logged '
        'invocations; distinct = distinct case spec')
PLAN = {'quick': {'n': 6000, 'min_cases': 400}, 'thorough': {'n': 60000, 'min_cases': 6000}}
REQUIRED_ORACLES = ['structural_ops_carried_out', 'no_exception', 'derivers_first_in_order', 'no_invocation_after_death', 'starts_at_creation', 'schedule_contiguous',
                    'steps_once_per_phase', 'derived_values', 'published_matches_hierarchy', 'composite_written_back',
                    'rebuilt_engine_continues']
ANCHORS = ['vivarium.core.engine:Engine.apply_update', 'vivarium.core.engine:Engine._delete_path',
           'vivarium.core.engine:Engine._remove_deleted_processes', 'vivarium.core.engine:Engine.run_steps',
           'vivarium.core.engine:Engine._add_step_path', 'vivarium.core.engine:Engine._add_process_path',
           'vivarium.core.store:Store.move', 'vivarium.core.store:Store.insert', 'vivarium.core.store:Store.divide',
           'vivarium.core.store:Store.delete', 'vivarium.core.engine:_StepGraph.remove']
ASSUMPTIONS = ['the in-flight update of a moved process may be applied at its due time or discarded; only "not twice, not lost silently with a crash" is asserted',
               'serial mode (parallel transparency is C13)']


def gen(r, tier, i):
    from vmon import structw
    run_len = r.choice([6.0, 8.0, 10.0])
    # no structural operation after the rebuild point: there the order in which one batch's
    # updates are applied (not asserted by any property) would decide the outcome
    script = {t: ops for t, ops in structw.gen_script(r, maxops=6).items() if float(t) < run_len - 1}
    flowless0 = r.random() < 0.2
    return {'cell_ts': r.choice([0.5, 1.0, 1.5, 0.75]), 'dir_as': 'process' if flowless0 else r.choice(['process', 'process', 'step']),
            'initial_flowless': flowless0, 'script': script, 'base': r.choice([[], [], ['env']]),
            'deriver': r.choice([None, 'steps', 'processes']), 'viewers': r.random() < 0.3, 'poke': r.random() < 0.4, 'nested_cells': r.random() < 0.4, 'gen_legacy': r.random() < 0.3, 'dir_key': r.choice(['dir', 'dir', '0dir']), 'cell_rev': r.random() < 0.5, 'dir_subtopo': r.random() < 0.25, 'dir_first': r.random() < 0.4, 'dir_alias': r.random() < 0.3,
            'viewer_ts': 0.5, 'run': run_len, 'extra': 3.0}


def instances(tree, Process, path=()):
    """{path: instance} for process leaves of Engine.processes / .steps / store getters."""
    out = {}
    if isinstance(tree, dict):
        for k, v in tree.items():
            out.update(instances(v, Process, path + (k,)))
    elif isinstance(tree, Process):
        out[path] = id(tree)
    return out


def run(spec):
    from vmon import structw
    from vmon.sensors import Mon, drive, plain_values
    from vivarium.core.process import Process
    from vivarium.core.engine import Engine
    V = Viol()
    m = Mon()
    Mon.cur = m
    e = None
    try:
        e, comp = structw.build(spec)
        ok, exc = drive(e, m, [[spec['run'], 'update']], lambda iv: 4000)
        V.check('no_exception', ok, lambda: ('engine raised during a structural history', repr(exc)[:400],
                                             [ev[1] for ev in m.events if ev[0] == 'struct'][-3:]))
    except Exception as ex:
        import traceback
        ok = False
        V.check('no_exception', False, ('constructor raised', type(ex).__name__, str(ex)[:200], traceback.format_exc()[-300:]))
    finally:
        Mon.cur = None
    # online monitor of the directors: the update object a process returned is not changed afterwards
    V.count('update_object_intact', sum(1 for ev in m.events if ev[0] == 'struct'))
    for o in [o for o in m.online if o['oracle'] == 'update_object_intact'][:3]:
        V.append({'oracle': o['oracle'], 'detail': o['detail'], 'mechanism': None})
    stats = {'struct_ops': 0, 'invocations': 0, 'phases': 0, 'inflight_changes': 0}
    if e is None:
        return {'viol': list(V), 'evals': V.evals, 'nontrivial': False}

    emits = [(i, ev) for i, ev in enumerate(m.events) if ev[0] == 'emit' and ev[1] == 'history']
    walks = [(ev[2], {w[1]: w for w in ev[4]}) for i, ev in emits]          # (time, {id: (path,id,tag,kind)})
    cellish = lambda tag: tag.rsplit('.', 1)[-1] in ('led', 'led2', 'f1', 'f2', 'drv', 'drv2')
    # existence timeline
    born, died, moved_at = {}, {}, {}
    prev = {}
    for t, w in walks:
        for iid, rec in w.items():
            if iid not in born:
                born[iid] = t
            elif iid in prev and prev[iid][0] != rec[0]:
                moved_at.setdefault(iid, []).append(t)
        for iid in prev:
            if iid not in w and iid not in died:
                died[iid] = t
        prev = w
    # invocations per instance
    inv = {}
    for idx, ev in enumerate(m.events):
        if ev[0] == 'invoke' and isinstance(ev[2], tuple) and len(ev[2]) == 2:
            tag, iid = ev[2]
            inv.setdefault(iid, []).append((idx, ev[1], ev[3], ev[4], tag))
    stats['invocations'] = sum(len(v) for v in inv.values())
    final = e.global_time
    for iid, lst in inv.items():
        tag = lst[0][4]
        kind = lst[0][1]
        if iid not in born:
            V.check('no_invocation_after_death', False, ('instance %s invoked but never seen in the hierarchy' % tag,))
            continue
        if iid in died:
            late = [t for (_, _, t, _, _) in lst if t >= died[iid] and kind == 'process']
            late_steps = [t for (_, _, t, _, _) in lst if t > died[iid] and kind == 'step']
            V.check('no_invocation_after_death', not late and not late_steps,
                    lambda: ('%s %s invoked at %r after it left the hierarchy at %r' % (kind, tag, (late + late_steps)[:3], died[iid])))
        else:
            V.check('no_invocation_after_death', True)
        if kind == 'process':
            times = [(t, ts) for (_, _, t, ts, _) in lst]
            first_ok = times[0][0] == born[iid]
            V.check('starts_at_creation', first_ok,
                    lambda: ('process %s entered the hierarchy at %r, first invoked at %r' % (tag, born[iid], times[0][0])))
            restarts = set(moved_at.get(iid, []))
            bad = [(a, b) for a, b in zip(times, times[1:]) if b[0] != a[0] + a[1] and b[0] not in restarts]
            V.check('schedule_contiguous', not bad,
                    lambda: ('process %s: consecutive invocations (time, timestep) not contiguous' % tag, bad[:3], sorted(restarts)))
            # Known finding F2: a process moved (with its compartment) in the middle of an interval is started
            # again at the time of the move - the update it had in flight is discarded, its intervals overlap
            again = [(a, b) for a, b in zip(times, times[1:]) if b[0] != a[0] + a[1] and b[0] in restarts]
            V.check('schedule_contiguous', not again,
                    lambda: ('process %s was moved in the middle of an interval and started again at the time of the move '
                             '(its pending update is lost, its intervals overlap): (time, timestep) pairs' % tag, again[:3]),
                    mechanism='moved-process-restarts')
            if ok and iid not in died:
                last = times[-1]
                V.check('schedule_contiguous', last[0] + last[1] == final,
                        lambda: ('live process %s not simulated up to the final time %r: last invocation %r' % (tag, final, last)))
    # live processes that were never invoked
    if ok and walks:
        for iid, rec in walks[-1][1].items():
            if rec[3] == 'process' and cellish(rec[2]) and born[iid] < final:
                V.check('starts_at_creation', iid in inv, lambda: ('live process %s (since %r) was never invoked' % (rec[2], born[iid]),))
    ledger_base = {}
    # steps: exactly once per phase
    bounds = [i for i, ev in emits]
    prev_i = -1
    prev_w = {}
    prev_row = None
    for (i, ev), (t, w) in zip(emits, walks):
        ran = {}
        order = []
        for x in m.events[prev_i + 1:i]:
            if x[0] == 'invoke' and x[1] == 'step' and isinstance(x[2], tuple) and len(x[2]) == 2:
                ran[x[2][1]] = ran.get(x[2][1], 0) + 1
                order.append(x[2][0])
                V.check('step_timestep_zero', x[4] == 0, lambda: ('step invoked with timestep %r' % x[4],))
        # steps without flow entries (derivers) run first, one at a time, in declaration order
        kinds = [tg.rsplit('.', 1)[-1] for tg in order]
        last_der = max([k for k, kd in enumerate(kinds) if kd in ('drv', 'drv2')], default=-1)
        first_flow = min([k for k, kd in enumerate(kinds) if kd in ('f0', 'f1', 'f2')], default=10 ** 9)
        pairs_ok = all(order.index(tg[:-1]) < k for k, tg in enumerate(order) if tg.endswith('.drv2') and tg[:-1] in order)
        V.check('derivers_first_in_order', last_der < first_flow and pairs_ok,
                lambda: ('derivers must run before the flow steps and in declaration order (phase at t=%r)' % t, order))
        stats['phases'] += 1
        for iid, rec in w.items():
            if rec[3] != 'step' or not cellish(rec[2]):
                continue
            in_prev = iid in prev_w and prev_w[iid][0] == rec[0]     # same path: not moved during this phase
            if spec['dir_as'] == 'process' or in_prev or prev_i < 0:
                V.check('steps_once_per_phase', ran.get(iid, 0) == 1,
                        lambda: ('step %s ran %d times in the phase at t=%r' % (rec[2], ran.get(iid, 0), t)))
            else:
                V.check('steps_once_per_phase', ran.get(iid, 0) <= 1,
                        lambda: ('step %s (created during the phase at t=%r) ran %d times' % (rec[2], t, ran.get(iid, 0))))
        for iid, n in ran.items():
            V.check('steps_once_per_phase', n == 1 and (iid in w or iid in prev_w),
                    lambda: ('a step ran %d times / is not in the hierarchy in the phase at t=%r' % (n, t)))
        # derived values: steps that ran see this batch's process updates, f2 after f1
        row = ev[3]
        for port in ('A', 'B'):
            node = row
            for k in spec['base'] + [port]:
                node = node.get(k, {}) if isinstance(node, dict) else {}
            for key, cell in (node or {}).items():
                st = cell.get('st', {}) if isinstance(cell, dict) else {}
                path = tuple(spec['base']) + (port, key)
                # the cell's ledger: every process instance that ever wrote to it numbers its updates; they
                # arrive in order, none twice (a clause of C01, harvested by C01's check)
                # Judged from the first row in which this incarnation of the cell (its process instance) is seen:
                # what the ledger held then is inherited (division) or arrived in the batch that created the
                # cell (a compartment replacing one deleted in the same batch may receive the update the deleted
                # process had computed for that very time - the order inside a batch is not specified).
                led = [iid for iid, rec in w.items() if rec[0] == path + ('led',)]
                log = st.get('log', []) or []
                base = ledger_base.setdefault((path, led[0] if led else None), len(log))
                last = {}
                bad_tok = None
                gap_tok = None
                for tok in log[base:]:
                    if isinstance(tok, (list, tuple)) and len(tok) >= 2:
                        if tok[1] <= last.get(tok[0], 0):
                            bad_tok = tok
                        elif tok[0] in last and tok[1] != last[tok[0]] + 1:
                            gap_tok = (tok, last[tok[0]])
                        last[tok[0]] = tok[1]
                # ... and none is lost: the updates of one process instance that reach the ledger are consecutive
                V.check('ledger_in_order', gap_tok is None,
                        lambda: ('row at t=%r, cell %s: the ledger holds update %r right after update %r of the same process - the '
                                 'updates in between were computed and never applied' % (t, key, gap_tok[0], gap_tok[1]),
                                 [tuple(x[:2]) for x in st.get('log', [])][-8:]))
                V.check('ledger_in_order', bad_tok is None,
                        lambda: ('row at t=%r, cell %s: the ledger holds update %r after a later one of the same process' % (t, key, bad_tok),
                                 [tuple(x[:2]) for x in st.get('log', [])][-8:]))
                f1 = [iid for iid, rec in w.items() if rec[0] == path + ('f1',)]
                f2 = [iid for iid, rec in w.items() if rec[0] == path + ('f2',)]
                d1 = [iid for iid, rec in w.items() if rec[0] == path + ('drv',)]
                d2 = [iid for iid, rec in w.items() if rec[0] == path + ('drv2',)]
                if d1 and d2 and ran.get(d1[0]) == 1 and ran.get(d2[0]) == 1:
                    V.check('derived_values', st.get('tri') == 3 * st.get('n') and st.get('tri2') == 3 * st.get('n') + 1,
                            lambda: ('row at t=%r, cell %s: n=%r tri=%r tri2=%r (derivers did not run one after the other on this batch)' % (
                                t, key, st.get('n'), st.get('tri'), st.get('tri2'))))
                f0 = [iid for iid, rec in w.items() if rec[0] == path + ('f0',)]
                if f0 and f1 and ran.get(f0[0]) == 1 and ran.get(f1[0]) == 1 and prev_row is not None:
                    pnode = prev_row
                    for k in spec['base'] + [port, key]:
                        pnode = pnode.get(k, {}) if isinstance(pnode, dict) else {}
                    pst = pnode.get('st') if isinstance(pnode, dict) else None
                    if isinstance(pst, dict) and 'twice' in pst and prev_w.get(f0[0], (None,))[0] == path + ('f0',) and \
                            prev_w.get(f1[0], (None,))[0] == path + ('f1',):
                        # (a clause of C04, harvested by C04's check: the steps of one layer see one state)
                        V.check('layer_same_snapshot', st.get('lag') == pst['twice'],
                                lambda: ('row at t=%r, cell %s: lag=%r but twice was %r before this phase (a step of the same layer saw '
                                         'the other one\'s update)' % (t, key, st.get('lag'), pst['twice'])))
                h1 = [iid for iid, rec in w.items() if rec[0] == path + ('sub', 'h1')]
                h2 = [iid for iid, rec in w.items() if rec[0] == path + ('sub', 'h2')]
                if h1 and h2 and ran.get(h1[0]) == 1 and ran.get(h2[0]) == 1:
                    V.check('derived_values', st.get('hx') == 6 * st.get('n') and st.get('ox') == 6 * st.get('n') + 1,
                            lambda: ('row at t=%r, cell %s: n=%r hx=%r ox=%r (nested flow steps did not run in dependency order on this batch)' % (
                                t, key, st.get('n'), st.get('hx'), st.get('ox'))))
                if f1 and f2 and ran.get(f1[0]) == 1 and ran.get(f2[0]) == 1:
                    V.check('derived_values', st.get('twice') == 2 * st.get('n') and st.get('quad') == 4 * st.get('n'),
                            lambda: ('row at t=%r, cell %s: n=%r twice=%r quad=%r (steps did not see this batch / ran out of order)' % (
                                t, key, st.get('n'), st.get('twice'), st.get('quad'))))
        prev_i, prev_w, prev_row = i, w, row
    # every structural operation the directors issued was carried out: the first row after the batch that
    # applies them shows it (keys touched by one operation of the batch only)
    step_dir = spec['dir_as'] == 'step'
    dir_ts = spec.get('dir_ts', 1.0)
    batches = {}
    for idx, ev in enumerate(m.events):
        if ev[0] == 'struct':
            batches.setdefault(ev[2], []).append((idx, ev[1]))
    for t_dec, lst in batches.items():
        first_idx = min(i for i, _ in lst)
        due = t_dec if step_dir else t_dec + dir_ts
        row_ev = next((e2 for j, e2 in enumerate(m.events) if j > first_idx and e2[0] == 'emit' and e2[1] == 'history'
                       and e2[2] >= due), None)
        if row_ev is None:
            continue
        node = row_ev[3]
        for k in spec['base']:
            node = node.get(k, {}) if isinstance(node, dict) else {}
        ops = [op for _, oplist in lst for op in oplist]
        touched = {}
        for op in ops:
            for key in ([op[2], op[2] + '0', op[2] + '1'] if op[0] == 'divide' else [op[2]]):
                touched[key] = touched.get(key, 0) + 1
        for op in ops:
            kind, port, key = op[0], op[1], op[2]
            keys = [key, key + '0', key + '1'] if kind == 'divide' else [key]
            if any(touched[k] != 1 for k in keys):
                continue
            here = set((node.get(port) or {}).keys()) if isinstance(node, dict) else set()
            if kind == 'delete':
                okop = key not in here
            elif kind in ('generate', 'add'):
                okop = key in here
            elif kind == 'divide':
                okop = key not in here and key + '0' in here and key + '1' in here
            elif kind == 'move':
                there = set((node.get(op[3]) or {}).keys())
                okop = key not in here and key in there
            elif kind == 'move_regen':
                there = set((node.get(op[3]) or {}).keys())
                okop = key in here and key in there
            elif kind == 'gen_delete':
                okop = key not in here
            else:
                continue
            V.check('structural_ops_carried_out', okop,
                    lambda: ('operation %r decided at t=%r is not reflected in the row at t=%r' % (op, t_dec, row_ev[2]),
                             {p: sorted((node.get(p) or {}).keys()) for p in ('A', 'B')}))
    # structural ops and in-flight classification
    for ev in m.events:
        if ev[0] == 'struct':
            stats['struct_ops'] += len(ev[1])
    ts = spec['cell_ts']
    for iid, times in moved_at.items():
        stats['inflight_changes'] += sum(1 for t in times if (t - born.get(iid, 0)) % ts != 0)
    for iid, t in died.items():
        stats['inflight_changes'] += 1 if (t - born.get(iid, 0)) % ts != 0 else 0
    gen2 = any(len(w[2].split('.')[0]) >= 3 and w[2].split('.')[0][-1] in '01' and w[2].split('.')[0][-2] in '01'
               for t, wk in walks for w in wk.values())
    if ok:
        # published composite vs hierarchy
        pub = dict(instances(e.processes, Process))
        pub.update(instances(e.steps, Process))
        sto = dict(instances(e.state.get_processes() or {}, Process))
        sto.update(instances(e.state.get_steps() or {}, Process))
        V.check('published_matches_hierarchy', pub == sto,
                lambda: ('Engine.processes/steps differ from the hierarchy', sorted(map(str, set(pub) ^ set(sto)))[:6]))
        only_steps = instances(e.steps, Process)
        sto_steps = instances(e.state.get_steps() or {}, Process)
        V.check('published_matches_hierarchy', set(only_steps) <= set(sto_steps),
                lambda: ('Engine.steps lists non-steps', sorted(map(str, set(only_steps) - set(sto_steps)))[:6]))
        V.check('published_matches_hierarchy', prune(e.topology) == prune(e.state.get_topology() or {}),
                lambda: ('Engine.topology differs from the hierarchy', _ddiff(prune(e.topology), prune(e.state.get_topology() or {}))))
        V.check('published_matches_hierarchy', prune_flow(e.flow) == prune_flow(e.state.get_flow() or {}),
                lambda: ('Engine.flow differs from the hierarchy', _ddiff(prune_flow(e.flow), prune_flow(e.state.get_flow() or {}))))
        V.check('composite_written_back', comp['processes'] is e.processes and comp['steps'] is e.steps and
                comp['topology'] is e.topology and comp['flow'] is e.flow,
                'the Composite the engine was built from is not the published composite')
        # differential continuation
        try:
            rebuilt_continuation(V, e, spec, m)
        except Exception as ex:
            import traceback
            V.check('rebuilt_engine_continues', False, ('rebuilding / continuing raised', type(ex).__name__, str(ex)[:300],
                                                        traceback.format_exc()[-400:]))
    nt = stats['struct_ops'] >= 2 and (stats['inflight_changes'] >= 1 or gen2) and stats['invocations'] >= 20
    kinds = sorted({'op_' + op[0] for ev in m.events if ev[0] == 'struct' for op in ev[1]})
    return {'viol': list(V), 'evals': V.evals, 'stats': stats, 'nontrivial': bool(nt),
            'classes': kinds + ['dir_' + spec['dir_as'], 'deriver_%s' % spec['deriver'], 'gen2' if gen2 else 'gen1'],
            'summary': dict(stats)}


def prune_flow(d):
    """Drop empty dictionaries but keep empty dependency lists."""
    if isinstance(d, dict):
        o = {k: prune_flow(v) for k, v in d.items()}
        return {k: v for k, v in o.items() if not (isinstance(v, dict) and not v) and v is not None}
    if isinstance(d, (list, tuple)):
        return [tuple(x) for x in d]
    return d


def _ddiff(a, b, p=()):
    if isinstance(a, dict) and isinstance(b, dict):
        out = []
        for k in sorted(set(a) | set(b), key=str):
            if k not in a or k not in b:
                out.append(('/'.join(map(str, p + (k,))), 'published only' if k in a else 'hierarchy only'))
            else:
                out += _ddiff(a[k], b[k], p + (k,))
        return out[:6]
    return [] if a == b else [('/'.join(map(str, p)), repr(a)[:80], repr(b)[:80])]


def rebuilt_continuation(V, e, spec, m):
    """A new engine built from the published composite + current state continues identically."""
    from vmon import structw
    from vmon.sensors import Mon, plain_values, drive, MonEngine
    now = e.global_time
    parts = copy.deepcopy({'processes': e.processes, 'steps': e.steps, 'flow': e.flow, 'topology': e.topology})
    state = copy.deepcopy(plain_values(e.state.get_value()))
    rows = {}
    import random
    import numpy as np
    for tag, builder in (('continued', None), ('rebuilt', parts)):
        random.seed(12345)          # dividers draw from the global generators
        np.random.seed(12345)
        mm = Mon()
        Mon.cur = mm
        try:
            if builder is None:
                eng = e
                mm.eng = e
            else:
                eng = MonEngine(processes=parts['processes'], steps=parts['steps'], flow=parts['flow'],
                                topology=parts['topology'], initial_state=state, display_info=False,
                                emitter={'type': 'vmon_walk'}, initial_global_time=now)
            ok, exc = drive(eng, mm, [[spec['extra'], 'update']], lambda iv: 4000)
        finally:
            Mon.cur = None
        if not ok:
            V.check('rebuilt_engine_continues', False, ('%s engine raised' % tag, repr(exc)[:300]))
            return
        rows[tag] = {ev[2]: ev[3] for ev in mm.events if ev[0] == 'emit' and ev[1] == 'history' and ev[2] > now}
    a, b = rows['continued'], rows['rebuilt']
    if any(op[0] == 'delete_sub' for ev in m.events if ev[0] == 'struct' for op in ev[1]):
        # the outputs of the deleted sub-compartment's steps stay in the hierarchy as variables nothing declares
        # any more; a rebuilt engine does not take undeclared variables over from the state
        def strip(d):
            if isinstance(d, dict):
                return {k: strip(v) for k, v in d.items() if k not in ('hx', 'ox')}
            return d
        a, b = strip(a), strip(b)
    bad = [t for t in sorted(set(a) | set(b)) if a.get(t) != b.get(t)]
    V.check('rebuilt_engine_continues', not bad,
            lambda: ('trajectory of the rebuilt engine differs from the continued one at t=%r' % bad[0],
                     _ddiff(a.get(bad[0]) or {}, b.get(bad[0]) or {})))


MANIFEST = {
    'text': 'Exploration: generated structural histories (divide with explicit/copied processes, delete by key/path, generate, move between stores, add; timed or step director; derivers declared in steps or processes; cell updates in flight) on the real engine. A walking emitter records which instances live where at every emit; the checker relates every logged invocation to that existence timeline, checks steps exactly-once per phase and derived values, compares the published composite with the hierarchy, and runs a rebuilt engine against the continued one.',
    'note': 'Instance identity by id() with instances kept alive; in-flight update of a moved process may be discarded; serial mode.',
    'technique': 'runtime monitoring: invocation log vs existence timeline from a hierarchy-walking emitter; published-composite comparison; differential continuation of a rebuilt engine',
}
