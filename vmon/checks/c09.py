"""C09 - structural updates change the hierarchy exactly as specified and nothing else.

Monitor shape: a pure-dict shadow of the hierarchy (R3) is advanced by the
documented meaning of each operation; after every batch applied by the real
Store.apply_update the full tree (keys, values, process instances) is compared
with the shadow, the identity of every untouched Store node with its identity
before the batch, and the identity of moved nodes / process instances."""
import copy

from vmon.util import Viol, flat

ID = 'C09'
LEVEL = 'exploration'
RULE = ('stores generated from cell composites (process + flow steps + optional deriver) in two glob stores plus an '
        'untouched branch; sequences of 1-8 batches, each a single operation or a combination in one update: _add '
        '(new key / existing key), _delete (by key, by tuple path, of a nested variable path), _generate (with '
        'processes, steps, flow), _divide (explicit or copied daughter processes, explicit daughter state), _move '
        '(with and without an update) and plain variable updates mixed in; non-trivial = >=3 batches applied, >=2 '
        'operation kinds, and a combined update or a second-generation operation; distinct = distinct case spec')
PLAN = {'quick': {'n': 10000, 'min_cases': 600}, 'thorough': {'n': 100000, 'min_cases': 10000}}
REQUIRED_ORACLES = ['reported_paths', 'reissued_update', 'tree_matches_shadow', 'untouched_nodes_keep_identity', 'moved_keeps_identity',
                    'add_existing_rejected', 'combined_all_applied', 'delete_by_path']
ANCHORS = ['vivarium.core.store:Store.apply_update', 'vivarium.core.store:Store.add', 'vivarium.core.store:Store.move',
           'vivarium.core.store:Store.add_node', 'vivarium.core.store:Store.insert', 'vivarium.core.store:Store.generate',
           'vivarium.core.store:Store.divide', 'vivarium.core.store:Store.delete', 'vivarium.core.store:Store._delete_path']
ASSUMPTIONS = ['deterministic dividers (set, split of even integers, zero)',
               'states given to _add / _generate only name declared variables',
               'Store-level: operations are applied directly with Store.apply_update (engine-level histories are C10)']

KINDS = ['bag_cycle', 'add_leaf', 'delete_reissued', 'add', 'add_dup', 'add_existing', 'delete', 'delete_path', 'delete_var', 'generate', 'divide', 'move', 'move_update',
         'combo', 'plain']


def run_deep_move(spec):
    """A _move whose source is a path of two keys: the subtree is detached from src/g/k and attached - values,
    process and wiring intact - under the target store at the same relative path; its sibling stays."""
    from vivarium.core.engine import Engine
    from vivarium.core.process import Process
    V = Viol()

    class Cell(Process):
        def ports_schema(self):
            return {'S': {'n': {'_default': 0, '_emit': True}}}

        def calculate_timestep(self, states):
            return spec['ts']

        def next_update(self, timestep, states):
            return {'S': {'n': 1}}

    class Mover(Process):
        def ports_schema(self):
            return {'src': {'*': {'*': {}}}, 'dst': {'*': {}}, 'clk': {'_default': 0.0}}

        def next_update(self, timestep, states):
            upd = {'clk': timestep}
            if states['clk'] == spec['at']:
                upd['src'] = {'_move': [{'source': ('g1', 'a'), 'target': 'dst'}]}
            return upd
    try:
        e = Engine(processes={'mover': Mover({'timestep': 1.0}), 'src': {'g1': {'a': {'cell': Cell()}, 'b': {'cell': Cell()}}}},
                   topology={'mover': {'src': ('src',), 'dst': ('dst',), 'clk': ('clk',)},
                             'src': {'g1': {'a': {'cell': {'S': ('st',)}}, 'b': {'cell': {'S': ('st',)}}}}},
                   initial_state={'dst': {'keep': {'v': 7}} if spec['occupied'] else {}}, display_info=False)
        e.update(spec['run'])
        data = e.emitter.get_data()
        last = data[max(data)]
        ticks = int(spec['run'] / spec['ts'])
        moved = last.get('dst', {}).get('g1', {}).get('a', {}).get('st', {}).get('n')
        stayed = last.get('src', {}).get('g1', {}).get('b', {}).get('st', {}).get('n')
        V.check('move_exact', moved == ticks and stayed == ticks and 'a' not in last.get('src', {}).get('g1', {}) and
                ('src', 'g1', 'a', 'cell') not in e.process_paths and ('dst', 'g1', 'a', 'cell') in e.process_paths,
                lambda: ('_move with the source path (g1, a): after %r time units the moved cell shows n=%r and its sibling n=%r (both expected %d); '
                         'processes run at %r' % (spec['run'], moved, stayed, ticks, sorted(e.process_paths)), last))
    except Exception as ex:
        V.check('move_exact', False, ('_move with a source path of two keys raised', type(ex).__name__, str(ex)[:200]))
    return {'viol': list(V), 'evals': V.evals, 'nontrivial': True, 'classes': ['deep_move'], 'summary': {}}


def run_divide_override(spec):
    """A _divide whose daughters carry explicit initial states naming variables below the first level of the
    compartment (scalars and dictionary-valued variables): a daughter holds exactly what the update says for the
    variables it names and the divided value of the mother for the others."""
    from vivarium.core.store import Store
    from vivarium.core.process import Process
    V = Viol()
    depth = spec['depth']
    inner_path = ['box', 'inner', 'core'][:depth]

    class Holder(Process):
        def ports_schema(self):
            return {'S': {'settings': {'_default': dict(spec['mother']), '_updater': 'set', '_divider': 'set'},
                          'size': {'_default': 8, '_updater': 'set', '_divider': 'split'}}}

        def next_update(self, timestep, states):
            return {}
    try:
        root = Store({})
        root.generate(('cells', 'm'), {'holder': Holder()}, {}, {}, {'holder': {'S': tuple(inner_path)}}, {})
        root.apply_defaults()

        def nest(v):
            for k in reversed(inner_path):
                v = {k: v}
            return v
        ds = []
        for j, d in enumerate(('d0', 'd1')):
            entry = {'key': d}
            g = spec['given'][j]
            if g is not None:
                entry['initial_state'] = nest(copy.deepcopy(g))
            ds.append(entry)
        root.apply_update({'cells': {'_divide': {'mother': 'm', 'daughters': ds}}})
        got = root.get_value()['cells']
        V.check('divide_exact', sorted(got) == ['d0', 'd1'], lambda: ('after the division the store holds', sorted(got)))
        for j, d in enumerate(('d0', 'd1')):
            node = got.get(d, {})
            for k in inner_path:
                node = node.get(k, {}) if isinstance(node, dict) else {}
            g = spec['given'][j] or {}
            exp = {'settings': g['settings'] if 'settings' in g else dict(spec['mother']),
                   'size': g['size'] if 'size' in g else 4}
            seen = {k: node.get(k, 'MISSING') for k in exp} if isinstance(node, dict) else node
            V.check('divide_exact', seen == exp,
                    lambda: ('daughter %s of a division with the explicit initial state %r at depth %d (mother settings %r, size 8): '
                             'expected %r, holds %r' % (d, spec['given'][j], depth, spec['mother'], exp, seen)))
    except Exception as ex:
        import traceback
        V.check('divide_exact', False, ('division with explicit daughter states raised', type(ex).__name__, str(ex)[:200], traceback.format_exc()[-400:]))
    return {'viol': list(V), 'evals': V.evals, 'nontrivial': any(g for g in spec['given']), 'classes': ['divide_override'], 'summary': {}}


def gen(r, tier, i):
    if i % 50 == 23:
        mother = r.choice([{'size': 3, 'colour': 'red'}, {'a': 1}, {'a': {'b': 1}, 'c': 2}, {}])

        def given():
            k = r.random()
            if k < 0.25:
                return None
            g = {}
            if r.random() < 0.8:
                g['settings'] = r.choice([{'colour': 'blue'}, {}, {'z': 9}, {'a': {'q': 5}}, {'size': 3, 'colour': 'red', 'w': 1}])
            if r.random() < 0.4:
                g['size'] = r.choice([0, 7, 100])
            return g or None
        return {'family': 'divide_override', 'depth': r.choice([1, 2, 2, 3]), 'mother': mother, 'given': [given(), given()]}
    if i % 250 == 17:
        return {'family': 'deep_move', 'ts': r.choice([0.5, 1.0]), 'at': r.choice([0.0, 1.0, 2.0]), 'run': r.choice([4.0, 5.0]),
                'occupied': r.random() < 0.5}
    if r.random() < 0.04:
        # the engine side of the same operations (a key that is vacated and filled again, updates in flight):
        # C10's structural workload, judged here on "the operations are carried out" and on the ledgers of the
        # cells (nothing of a deleted compartment turns up in the one generated under its key)
        from vmon.checks import c10
        return {'family': 'engine', 'c10': c10.gen(r, tier, i)}
    A, B = ['a', 'b'], []
    fresh = ['g%d' % k for k in range(1, 9)]
    batches = []
    nleaf = 0
    for _ in range(r.randint(1, 8)):
        kind = r.choice(KINDS)
        if kind == 'bag_cycle':
            # a store whose glob port declares nothing for its children: emptied completely, then used again
            nleaf += 1
            batches.append([['bag_cycle', 'bag', 'k%d' % nleaf, r.randint(1, 9)]])
            continue
        if kind == 'add_leaf':
            # a child of a glob store of plain variables, created with a (possibly falsy) value of its own
            nleaf += 1
            batches.append([['add_leaf', 'L', 'l%d' % nleaf, r.choice([0, 0.0, False, '', 7, 'x', 2.5])]])
            continue
        port = r.choice(['A', 'A', 'B'])
        here, there = (A, B) if port == 'A' else (B, A)
        tport = 'B' if port == 'A' else 'A'

        def one(kind):
            if kind == 'add' and fresh:
                k = fresh.pop(0)
                here.append(k)
                return ['add', port, k, 64 * r.randint(0, 9)]
            if kind == 'add_dup' and fresh:
                return ['add_dup', port, fresh.pop(0), 64 * r.randint(0, 9)]
            if kind == 'add_existing' and here:
                return ['add_existing', port, r.choice(here), 64 * r.randint(0, 9)]
            if kind in ('delete', 'delete_path', 'delete_reissued') and here:
                k = r.choice(here)
                here.remove(k)
                return [kind, port, k]
            if kind == 'delete_var' and here:
                return ['delete_var', port, r.choice(here), r.choice(['twice', 'quad', 'log', 'tri2'])]
            if kind == 'generate' and fresh:
                k = fresh.pop(0)
                here.append(k)
                return ['generate', port, k, 64 * r.randint(0, 9), r.random() < 0.5]
            if kind == 'divide' and here:
                k = r.choice(here)
                if len(k) > 4:
                    return None
                here.remove(k)
                here.extend([k + '0', k + '1'])
                return ['divide', port, k, r.choice(['explicit', 'copy']), r.choice([None, 64 * r.randint(0, 9)])]
            if kind in ('move', 'move_update') and here:
                k = r.choice(here)
                here.remove(k)
                there.append(k)
                return [kind, port, k, tport, 64 * r.randint(1, 5)]
            if kind == 'plain' and here:
                return ['plain', port, r.choice(here), 64 * r.randint(1, 5)]
            return None
        if kind == 'combo':
            ops = [o for o in (one(r.choice(['add', 'generate', 'move', 'plain', 'delete'])) for _ in range(r.randint(2, 3))) if o]
            # one operation per key and per kind-list in a combined update
            seen = set()
            ops = [o for o in ops if not ((o[1], o[2]) in seen or seen.add((o[1], o[2])))]
            if ops:
                batches.append(ops)
        else:
            o = one(kind)
            if o:
                batches.append([o])
    return {'batches': batches, 'deriver': r.choice([None, 'steps', 'processes']), 'base': r.choice([[], [], ['env'], ['env', 'lab']]),
            'n0': {'a': 64 * r.randint(0, 20), 'b': 64 * r.randint(0, 20)}}


# ----------------------------------------------------------------------------
# R3: the shadow

def cell_shadow(key, n, deriver, tags=None):
    t = tags or key
    c = {'led': ('P', t + '.led'), 'f1': ('P', t + '.f1'), 'f2': ('P', t + '.f2'), 'f0': ('P', t + '.f0'),
         'st': {'log': [], 'n': n, 'twice': 0, 'quad': 0, 'lag': 0, 'g': 0}, 'ves': {}}
    if deriver:
        c['drv'] = ('P', t + '.drv')
        c['drv2'] = ('P', t + '.drv2')
        c['st']['tri'] = 0
        c['st']['tri2'] = 0
    return c


def run(spec):
    if spec.get('family') == 'deep_move':
        return run_deep_move(spec)
    if spec.get('family') == 'divide_override':
        return run_divide_override(spec)
    if spec.get('family') == 'engine':
        from vmon.checks import c10
        from vmon.util import harvest
        return harvest(c10.run(spec['c10']), ('structural_ops_carried_out', 'ledger_in_order', 'update_object_intact', 'no_exception'), ['engine'])
    from vivarium.core.composer import Composite
    from vivarium.core.process import Process
    from vmon import structw
    V = Viol()
    der = spec['deriver']
    cfg = {'ts': 1.0, 'deriver': der, 'parallel': False}
    base = tuple(spec.get('base', []))        # the whole arrangement may live in a nested compartment
    comp = Composite()
    for a in ('a', 'b'):
        comp.merge(composite=structw.Cell(dict(cfg, agent_id=a)).generate(path=base + ('A', a)))
    comp.merge(processes={'dir': structw.Director({'script': {}, 'cell': cfg, 'tag': 'dir'})},
               topology={'dir': {'A': ('A',), 'B': ('B',), 'clk': ('clk',)}}, path=base)

    class Keeper(Process):
        def ports_schema(self):
            return {'other': {'z': {'_default': 7}, 'w': {'_default': [1, 2], '_updater': 'set'}},
                    'L': {'*': {'_default': 5, '_updater': 'set'}},
                    'BAG': {'*': {}},
                    # a variable that only this glob sub-schema declares for the cells of A and B
                    # ... and a second glob store inside every cell (its children come with the cells' states)
                    'GA': {'*': {'st': {'g': {'_default': 0}}, 'ves': {'*': {'v': {'_default': 5}, 'w': {'_default': 6}}}}},
                    'GB': {'*': {'st': {'g': {'_default': 0}}, 'ves': {'*': {'v': {'_default': 5}, 'w': {'_default': 6}}}}}}

        def next_update(self, timestep, states):
            return {}
    comp.merge(processes={'keeper': Keeper({'tag': 'keeper'})}, topology={'keeper': {'other': ('other',), 'L': ('L',), 'GA': ('A',), 'GB': ('B',), 'BAG': ('bag',)}}, path=base)
    init = {'B': {}, 'L': {'l0': 1}, 'bag': {'x': {'v': 1}}, 'A': {a: {'st': {'n': spec['n0'][a]}} for a in ('a', 'b')}}
    for k in reversed(base):
        init = {k: init}
    try:
        store = comp.generate_store({'initial_state': init}).get_path(base)
    except Exception as ex:
        import traceback
        V.check('no_exception', False, ('generate_store raised', type(ex).__name__, str(ex)[:200], traceback.format_exc()[-300:]))
        return {'viol': list(V), 'evals': V.evals, 'nontrivial': False}
    dir_store = store.get_path(('dir',))
    shadow = {'A': {a: cell_shadow(a, spec['n0'][a], der) for a in ('a', 'b')}, 'B': {},
              'dir': ('P', 'dir'), 'keeper': ('P', 'keeper'), 'clk': 0.0, 'other': {'z': 7, 'w': [1, 2]}, 'L': {'l0': 1}, 'bag': {'x': {'v': 1}}}

    def real_tree():
        def conv(t):
            if isinstance(t, dict):
                return {k: conv(v) for k, v in t.items()}
            if isinstance(t, tuple) and len(t) == 2 and isinstance(t[0], Process):
                return ('P', t[0].parameters.get('tag', t[0].name))
            if isinstance(t, Process):
                return ('P', t.parameters.get('tag', t.name))
            return t
        return conv(store.get_value())

    def nodes():
        out = {}

        def walk(st, p):
            out[p] = st
            for k, c in st.inner.items():
                walk(c, p + (k,))
        walk(store, ())
        return out

    def procs():
        return {p: n.value for p, n in nodes().items() if isinstance(n.value, Process)}

    V.check('tree_matches_shadow', real_tree() == shadow, lambda: ('initial hierarchy differs from the shadow', _ddiff(shadow, real_tree())))
    applied = 0
    kinds_seen = set()
    combos = 0
    intact_evals = 0
    intact_viol = []
    for ops in spec['batches']:
        if ops[0][0] == 'bag_cycle':
            _, port, key, val = ops[0]
            try:
                for k in list(shadow[port]):
                    store.apply_update({port: {'_delete': [k]}}, dir_store)
                store.apply_update({port: {'_add': [{'key': key, 'state': {'v': val}}]}}, dir_store)
            except Exception as ex:
                V.check('tree_matches_shadow', False, ('emptying a store and adding to it again raised', type(ex).__name__, str(ex)[:200], ops))
                break
            shadow = copy.deepcopy(shadow)
            shadow[port] = {key: {'v': val}}
            got = real_tree()
            applied += 1
            kinds_seen.add('bag_cycle')
            if not V.check('tree_matches_shadow', got == shadow,
                           lambda: ('a store emptied by _delete and filled again by _add differs from the specification', ops, _ddiff(shadow, got))):
                break
            continue
        if ops[0][0] == 'add_leaf':
            _, port, key, val = ops[0]
            try:
                store.apply_update({port: {'_add': [{'key': key, 'state': val}]}}, dir_store)
            except Exception as ex:
                V.check('tree_matches_shadow', False, ('_add of a leaf child raised', type(ex).__name__, str(ex)[:200], ops))
                break
            shadow = copy.deepcopy(shadow)
            shadow[port][key] = val
            got = real_tree()
            applied += 1
            kinds_seen.add('add_leaf')
            if not V.check('tree_matches_shadow', got == shadow and type(got.get(port, {}).get(key)) is type(val),
                           lambda: ('an added leaf child does not hold the given state', ops, _ddiff(shadow, got))):
                break
            continue
        if ops[0][0] == 'delete_reissued':
            # an update belongs to the process that returned it: the same object handed in again (after the
            # child was added back) must be carried out again
            _, port, key = ops[0]
            if key not in shadow[port]:
                continue
            U = {port: {'_delete': [key]}}
            try:
                store.apply_update(U, dir_store)
                store.apply_update({port: {'_add': [{'key': key, 'state': {'st': {'n': 5}}}]}}, dir_store)
                store.apply_update(U, dir_store)
            except Exception as ex:
                V.check('reissued_update', False, ('re-issuing a _delete update raised', type(ex).__name__, str(ex)[:200], ops))
                break
            shadow = copy.deepcopy(shadow)
            shadow[port].pop(key)
            got = real_tree()
            applied += 1
            kinds_seen.add('delete_reissued')
            if not V.check('reissued_update', got == shadow,
                           lambda: ('a _delete update object handed in a second time was not carried out', ops, _ddiff(shadow, got))):
                break
            continue
        update = {}
        touched = set()       # path prefixes whose subtree may change identity
        new_shadow = copy.deepcopy(shadow)
        expect_raise = False
        moved = []
        valid = True
        adds, gens, moves, divs, dels, plains = [], [], [], [], [], []
        for op in ops:
            kind, port, key = op[0], op[1], op[2]
            present = key in shadow[port]
            u = update.setdefault(port, {})
            if kind == 'add':
                if present:
                    valid = False
                    break
                u.setdefault('_add', []).append({'key': key, 'state': {'st': {'n': op[3]}, 'ves': {'k': {'v': 1}}}})
                adds.append(op)
            elif kind == 'add_dup':
                if present:
                    valid = False
                    break
                u.setdefault('_add', []).append({'key': key, 'state': {'st': {'n': op[3]}}})
                u['_add'].append({'key': key, 'state': {'st': {'n': op[3] + 64}}})
                expect_raise = 'dup'
            elif kind == 'add_existing':
                if not present:
                    valid = False
                    break
                u.setdefault('_add', []).append({'key': key, 'state': {'st': {'n': op[3]}}})
                expect_raise = True
            elif kind in ('delete', 'delete_path'):
                if not present:
                    valid = False
                    break
                u.setdefault('_delete', []).append(key if kind == 'delete' else (key,))
                dels.append(op)
            elif kind == 'delete_var':
                if not present or op[3] not in shadow[port][key].get('st', {}):
                    valid = False
                    break
                u.setdefault('_delete', []).append((key, 'st', op[3]))
                dels.append(op)
            elif kind == 'generate':
                if present:
                    valid = False
                    break
                c = structw.Cell(dict(cfg, agent_id=key, deriver=der if op[4] else None)).generate()
                u.setdefault('_generate', []).append({'key': key, 'processes': c['processes'], 'steps': c['steps'],
                                                      'flow': c['flow'], 'topology': c['topology'],
                                                      'initial_state': {'st': {'n': op[3], 'g': 4}, 'ves': {'k': {'v': 2}}}})
                gens.append(op)
            elif kind == 'divide':
                if not present or '_divide' in u:
                    valid = False
                    break
                ds = []
                for j, d in enumerate((key + '0', key + '1')):
                    entry = {'key': d}
                    if op[4] is not None and j == 0:
                        entry['initial_state'] = {'st': {'twice': op[4]}}
                    if op[3] == 'explicit':
                        c = structw.Cell(dict(cfg, agent_id=d)).generate()
                        entry.update(processes=c['processes'], steps=c['steps'], flow=c['flow'], topology=c['topology'])
                    ds.append(entry)
                u['_divide'] = {'mother': key, 'daughters': ds}
                divs.append(op)
            elif kind in ('move', 'move_update'):
                if not present or key in shadow[op[3]]:
                    valid = False
                    break
                mv = {'source': (key,), 'target': (op[3],)}
                if kind == 'move_update':
                    mv['update'] = {'st': {'n': op[4]}}
                u.setdefault('_move', []).append(mv)
                moves.append(op)
            elif kind == 'plain':
                if not present:
                    valid = False
                    break
                u.setdefault(key, {}).setdefault('st', {})['n'] = op[3]
                plains.append(op)
        if not valid or not update:
            continue
        # ---- advance the shadow in the documented order: additions and moves, generates, divides, inner keys, deletions
        if not expect_raise:
            for op in adds:
                new_shadow[op[1]][op[2]] = {'st': {'n': op[3], 'g': 0}, 'ves': {'k': {'v': 1, 'w': 6}}}
                touched.add((op[1], op[2]))
            for op in moves:
                sub = new_shadow[op[1]].pop(op[2])
                if op[0] == 'move_update':
                    sub['st']['n'] += op[4]
                new_shadow[op[3]][op[2]] = sub
                moved.append(((op[1], op[2]), (op[3], op[2])))
                touched.add((op[1], op[2]))
                touched.add((op[3], op[2]))
            for op in gens:
                new_shadow[op[1]][op[2]] = cell_shadow(op[2], op[3], der if op[4] else None)
                new_shadow[op[1]][op[2]]['st']['g'] = 4       # from the initial state, not the sub-schema's default
                new_shadow[op[1]][op[2]]['ves'] = {'k': {'v': 2, 'w': 6}}
                touched.add((op[1], op[2]))
            for op in divs:
                m = new_shadow[op[1]].pop(op[2])
                touched.add((op[1], op[2]))
                for j, d in enumerate((op[2] + '0', op[2] + '1')):
                    st = copy.deepcopy(m['st'])
                    st['n'] = m['st']['n'] // 2
                    if op[3] == 'explicit':
                        cell = cell_shadow(d, st['n'], der)
                        cell['st'].update(st)
                        cell['ves'] = copy.deepcopy(m.get('ves', {}))
                    else:
                        cell = {k: v for k, v in copy.deepcopy(m).items() if k != 'st'}
                        # variables declared by the (copied) processes exist with their defaults
                        decl = cell_shadow(d, st['n'], 'drv' in cell)['st'] if 'led' in cell else {}
                        cell['st'] = dict(decl, **st)
                    if op[4] is not None and j == 0 and 'twice' in cell['st']:
                        cell['st']['twice'] = op[4]
                    new_shadow[op[1]][d] = cell
                    touched.add((op[1], d))
            for op in plains:
                if op[2] in new_shadow[op[1]]:
                    new_shadow[op[1]][op[2]]['st']['n'] += op[3]
                    touched.add((op[1], op[2], 'st', 'n'))
            for op in dels:
                if op[0] == 'delete_var':
                    new_shadow[op[1]][op[2]]['st'].pop(op[3], None)
                    touched.add((op[1], op[2], 'st', op[3]))
                else:
                    new_shadow[op[1]].pop(op[2], None)
                    touched.add((op[1], op[2]))
        before_nodes = nodes()
        before_procs = procs()
        skeleton = _skel(update)
        reported = None
        try:
            reported = store.apply_update(update, dir_store)
            raised = None
        except Exception as ex:
            raised = ex
        if reported is not None and raised is None:
            # what the store reports to the engine (paths of new processes and steps) names nodes that hold them
            top = store.top()
            for plist, what in ((reported[1], 'process'), (reported[2], 'step')):
                for rpath, inst in plist or []:
                    try:
                        node = top.get_path(tuple(rpath))
                        # (a step handed over among the processes is reported among them: legacy style)
                        okp = node.value is inst and (what == 'process' or inst.is_step())
                    except Exception:
                        okp = False
                    V.check('reported_paths', okp,
                            lambda: ('apply_update reported a %s at %r, which is not where the hierarchy holds it' % (what, rpath), ops))
        # the update belongs to the process that returned it (it may hand the same object in again):
        # carrying it out must not consume it
        # (a clause of C08, harvested by C08's check from this workload; not a verdict of C09)
        intact_evals += 1
        if _skel(update) != skeleton:
            intact_viol.append(('apply_update modified the structural update object it was given', ops, _ddiff(skeleton, _skel(update))))
        applied += 1
        kinds_seen.update(op[0] for op in ops)
        combos += len(ops) > 1
        if expect_raise == 'dup':
            # the second entry names a key that exists by then: it must be rejected; the first entry may
            # already have been carried out (no atomicity is promised)
            V.check('add_existing_rejected', raised is not None, lambda: ('an _add list naming one key twice was accepted', ops))
            op = ops[0]
            with_first = copy.deepcopy(shadow)
            with_first[op[1]][op[2]] = {'st': {'n': op[3], 'g': 0}, 'ves': {}}
            got = real_tree()
            V.check('add_existing_rejected', got == shadow or got == with_first,
                    lambda: ('after the rejected duplicate _add the hierarchy is neither unchanged nor holds the first entry', _ddiff(with_first, got)))
            if got == with_first:
                shadow = with_first
            elif got != shadow:
                break
            continue
        if expect_raise:
            V.check('add_existing_rejected', raised is not None, lambda: ('_add of an existing key was accepted', ops))
            if len(ops) == 1:
                V.check('add_existing_rejected', real_tree() == shadow,
                        lambda: ('rejected _add left a partial change', _ddiff(shadow, real_tree())))
            if real_tree() != shadow:
                break       # a combined update that legitimately failed half-way: stop this history
            continue
        if raised is not None:
            import traceback
            V.check('tree_matches_shadow', False, ('apply_update raised', type(raised).__name__, str(raised)[:300], ops))
            break
        shadow = new_shadow
        got = real_tree()
        ok = V.check('tree_matches_shadow', got == shadow, lambda: ('hierarchy after the batch differs from the specification', ops, _ddiff(shadow, got)))
        if len(ops) > 1:
            V.check('combined_all_applied', got == shadow, lambda: ('a combined update did not carry out every operation', ops, _ddiff(shadow, got)))
        if any(op[0] in ('delete_path', 'delete_var') for op in ops):
            V.check('delete_by_path', got == shadow, lambda: ('_delete by path did not remove exactly the named node', ops, _ddiff(shadow, got)))
        after_nodes = nodes()
        changed = [p for p, n in before_nodes.items()
                   if p in after_nodes and after_nodes[p] is not n and not any(p[:len(t)] == t for t in touched)]
        V.check('untouched_nodes_keep_identity', not changed,
                lambda: ('untouched nodes were replaced by different objects', ['/'.join(p) for p in changed][:6], ops))
        for src, dst in moved:
            same = before_nodes.get(src) is after_nodes.get(dst)
            ap = procs()
            same_procs = all(ap.get(dst + p[len(src):]) is inst for p, inst in before_procs.items() if p[:len(src)] == src)
            V.check('moved_keeps_identity', same and same_procs and src not in after_nodes,
                    lambda: ('_move did not attach the same subtree / process instances under the target', src, dst))
        if not ok:
            break
    gen2 = any(len(op[2]) >= 3 for ops in spec['batches'] for op in ops)
    return {'viol': list(V), 'evals': V.evals, 'stats': {'batches_applied': applied, 'combined_updates': combos},
            'nontrivial': applied >= 3 and len(kinds_seen) >= 2 and (combos >= 1 or gen2),
            'update_intact': {'evals': intact_evals, 'viol': intact_viol[:3]},
            'classes': sorted('op_' + k for k in kinds_seen), 'summary': {'batches_applied': applied, 'kinds': sorted(kinds_seen)}}


def _skel(u):
    """Structure of an update: dictionaries and lists by content, everything else (processes, numbers) by repr/identity."""
    if isinstance(u, dict):
        return {k: _skel(v) for k, v in u.items()}
    if isinstance(u, (list, tuple)):
        return [_skel(v) for v in u]
    return u if isinstance(u, (int, float, str, bool, type(None))) else id(u)


def _ddiff(a, b, p=()):
    if isinstance(a, dict) and isinstance(b, dict):
        out = []
        for k in sorted(set(a) | set(b), key=str):
            if k not in a or k not in b:
                out.append(('/'.join(map(str, p + (k,))), 'missing from the hierarchy' if k in a else 'unexpected in the hierarchy'))
            else:
                out += _ddiff(a[k], b[k], p + (k,))
        return out[:6]
    return [] if a == b else [('/'.join(map(str, p)), 'expected %r' % (a,), 'got %r' % (b,))]


MANIFEST = {
    'text': 'Exploration: generated sequences of structural batches (single operations and combinations in one update; _add new/existing, _delete by key / tuple path / nested variable path, _generate, _divide with explicit or copied processes, _move with and without update, plain updates) applied by the real Store.apply_update to stores generated from composites; after every batch the full hierarchy is compared with a pure-dict shadow advanced by the documented meaning of the operations, and Store-node / process-instance identities are compared for untouched and moved nodes.',
    'note': 'Deterministic dividers; Store-level application (engine-level histories are C10/C07); trusts the shadow R3 in checks/c09.py.',
    'technique': 'runtime monitoring: shadow-model comparison of the full hierarchy + object-identity monitor after every structural batch',
}
