"""C12 - the emitted history is a faithful, ordered sequence of state snapshots.

Monitor shape: a recording emitter registered through the public emitter
registry sees every emit() call in order, and snapshots the live hierarchy at
that moment; an offline checker validates the record grammar (configuration,
initial row, one row per update time, strictly increasing), row content against
an independent projection of the emit flags, no state change after a row of the
same time, and the emit_step subset law by differential runs."""
import copy

from vmon.util import Viol, flat, prune

ID = 'C12'
LEVEL = 'exploration'
RULE = ('1-3 processes with private and shared stores; per variable a generated emit flag; variables with units '
        '(emitted as !units[...] in declared units), with a custom serializer, with falsy values; a flow step '
        'and a legacy deriver whose outputs are emitted (rows must show post-step values); store_schema '
        'overrides at leaf and branch level; two glob stores whose children are added, deleted, divided and moved '
        'during the run (rows follow the shape); dyadic timesteps, 1-5 run_for/update calls, nonzero initial time; '
        'every case is also run with emit_step in {2, 3, 0.5, 2.5} for the subset law; non-trivial = >=4 '
        'rows and >=2 distinct flag values and a store_schema override or structural change; distinct = '
        'distinct case spec')
PLAN = {'quick': {'n': 6000, 'min_cases': 400}, 'thorough': {'n': 80000, 'min_cases': 8000}}
REQUIRED_ORACLES = ['configuration_first', 'initial_row', 'row_per_update_time', 'times_increasing',
                    'row_content', 'no_change_after_row', 'row_after_steps', 'emit_step_subset',
                    'emit_step_no_duplicates']
ANCHORS = ['vivarium.core.engine:Engine._emit_configuration', 'vivarium.core.engine:Engine._emit_store_data',
           'vivarium.core.engine:Engine.run_for', 'vivarium.core.store:Store.emit_data',
           'vivarium.core.store:Store.set_emit_value', 'vivarium.core.emitter:RAMEmitter.emit']
ASSUMPTIONS = ['emit flags are known from the generated schema + store_schema (naming is the harness\'s own)',
               'which subset of rows a larger emit_step selects is not asserted, only subset + equal content + no duplicates',
               'rows at ticks where only quiet processes advanced are allowed but not required']

TS = [0.25, 0.5, 0.75, 1.0, 1.5, 2.0, 5.0]
IV = [0.5, 1.0, 2.0, 2.75, 4.0, 6.0, 10.0]
_env = {}


def run_procnode(spec):
    """A branch-level flag (store_schema) over a compartment that holds a process: the process node is emitted too
    (serialized by name and parameters). The process changes one of its parameters at every invocation: every
    row shows the parameters the process had at that row's time."""
    from vivarium.core.engine import Engine
    from vivarium.core.process import Process
    V = Viol()

    class Stepper(Process):
        def ports_schema(self):
            return {'S': {'n': {'_default': 0}}}

        def calculate_timestep(self, states):
            return spec['ts']

        def next_update(self, timestep, states):
            self.parameters['gen'] = self.parameters.get('gen', 0) + 1
            return {'S': {'n': 1}}
    try:
        e = Engine(processes={'agent': {'stepper': Stepper({'gen': 0})}}, topology={'agent': {'stepper': {'S': ('st',)}}},
                   store_schema={'agent': {'_emit': True}}, display_info=False)
        for iv in spec['runs']:
            e.update(iv)
        data = e.emitter.get_data()
        for t in sorted(data):
            node = data[t].get('agent', {}).get('stepper')
            # the row at the k-th tick is emitted after k invocations... plus the one that started the interval
            # in flight at that time: invocations happen at 0, ts, 2 ts, ... and rows at ts, 2 ts, ...
            k = int(round(t / spec['ts']))
            want = "'gen': %d" % (k if t > 0 else 0)
            V.check('row_content', isinstance(node, str) and node.startswith('!ProcessSerializer[') and want in node and
                    data[t]['agent']['st']['n'] == k,
                    lambda: ('row at t=%r: the emitted process node does not show the parameters the process had then (%s)' % (t, want),
                             node, data[t]['agent'].get('st')))
    except Exception as ex:
        V.check('no_exception', False, ('procnode case raised', type(ex).__name__, str(ex)[:200]))
    return {'viol': list(V), 'evals': V.evals, 'nontrivial': True, 'classes': ['procnode'], 'summary': {'runs': len(spec['runs'])}}


def gen(r, tier, i):
    if i % 300 == 11:
        return {'family': 'procnode', 'ts': r.choice([0.5, 1.0, 2.0]), 'runs': [r.choice([2.0, 4.0]) for _ in range(r.randint(1, 3))]}
    if r.random() < 0.06:
        return gen_flat(r)
    n = r.randint(1, 3)
    procs = []
    for pid in range(n):
        procs.append({'pid': pid, 'ts': r.choice(TS), 'bflag': r.random() < 0.5,
                      'emit': {v: r.random() < 0.6 for v in ('a', 'b', 'q', 'q2', 'qser', 'qser2', 'ser', 'falsy', 'qgrid')}})
    overrides = []
    for pid in range(n):
        k = r.random()
        if k < 0.25:
            overrides.append({'path': ['st', 'p%d' % pid, r.choice(['a', 'b', 'q', 'q2'])], 'emit': r.random() < 0.5})
        elif k < 0.4:
            overrides.append({'path': ['st', 'p%d' % pid], 'emit': r.random() < 0.5})
    if r.random() < 0.15:
        overrides.append({'path': ['shared'], 'emit': r.random() < 0.5})
    if r.random() < 0.25:
        # the whole glob store (its children come and go during the run)
        overrides.append({'path': [r.choice(['cells', 'cells2'])], 'emit': r.random() < 0.6})
    if r.random() < 0.3:
        # a branch holding an ordinary variable and one that is only declared through a '**' port
        overrides.append({'path': r.choice([['deep'], ['deep'], ['deep', 'blob'], ['deep', 'n']]), 'emit': r.random() < 0.7})
    script = {}
    if r.random() < 0.5:
        t = 1.0
        names = ['c1', 'c2', 'c3']
        live = []
        for _ in range(r.randint(1, 5)):
            k = r.random()
            if live and k < 0.3:
                script[str(t)] = ['delete', live.pop(r.randrange(len(live)))]
            elif live and k < 0.5:
                c = live.pop(r.randrange(len(live)))
                if len(c) <= 3:
                    script[str(t)] = ['divide', c]
                    live += [c + '0', c + '1']
            elif live and k < 0.65:
                script[str(t)] = ['move', live.pop(r.randrange(len(live)))]      # into the second glob store
            elif names:
                c = names.pop(0)
                live.append(c)
                script[str(t)] = ['add', c]
            t += r.choice([1.0, 2.0])
    inner_procs = r.random() < 0.4
    if inner_procs and any(o['path'] in (['cells'], ['cells2']) for o in overrides):
        # (a node keeps the flags it had when it is moved into another branch: to keep the expectation a
        # function of the current place only, such cases delete instead of move)
        for t, op in script.items():
            if op[0] == 'move':
                script[t] = ['delete', op[1]]
    calls = [[r.choice(IV), r.choice([True, False, 'update'])] for _ in range(r.randint(1, 4))]
    if r.random() < 0.2:
        # a forced call over an empty interval (completes what an unforced call left behind)
        calls.insert(r.randint(1, len(calls)), [0.0, r.choice([True, 'update'])])
    total = sum(c[0] for c in calls)
    while total > 14 and len(calls) > 1:
        total -= calls.pop()[0]
    calls.append([r.choice([1.0, 2.0, 2.5]), 'update'])
    return {'procs': procs, 'overrides': overrides, 'script': script, 'calls': calls,
            't0': r.choice([0, 0, 0.0, 2.0, 10.5]), 'emit_steps': [r.choice([2, 3, 0.5, 2.5])], 'legacy_steps': r.random() < 0.2, 'late': r.choice([None, None, 'first', 'last']),
            'emit_sum': r.random() < 0.8, 'emit_cell': r.random() < 0.7, 'inner_procs': inner_procs}


def setup():
    import vivarium  # noqa
    from vivarium.core.registry import Serializer, serializer_registry
    from vivarium.library.units import units

    class TagSerializer(Serializer):
        python_type = int

        def serialize(self, data):
            return 'tag:%s' % (data,)
    ser = TagSerializer()
    ser.name = 'vmon_tag'
    if serializer_registry.access('vmon_tag') is None:
        serializer_registry.register('vmon_tag', ser)
    import numpy as np
    _env.update(units=units, ser=ser, np=np)


def build(spec, emit_step):
    from vmon.sensors import MonEngine, Mon
    from vivarium.core.process import Process, Step
    units = _env['units']
    FALSY = [0, False, '', [], 0.0, 3]

    class EmitProc(Process):
        def ports_schema(self):
            em = self.parameters['emit']
            return {
                'S': {'a': {'_default': 0, '_emit': em['a']},
                      'b': {'_default': 1.5, '_emit': em['b']},
                      'q': {'_default': 1.0 * units.fg, '_emit': em['q'], '_units': units.fg},
                      # declared in fg, default given in pg, never updated: must be emitted in fg
                      'q2': {'_default': 0.002 * units.pg, '_emit': em['q2'], '_units': units.fg},
                      'ser': {'_default': 0, '_emit': em['ser'], '_serializer': 'vmon_tag'},
                      # a custom serializer on a variable whose default is a quantity
                      'qser': {'_default': 2.0 * units.fg, '_emit': em['qser'], '_serializer': 'vmon_tag'},
                      # declared units and a custom serializer together
                      'qser2': {'_default': 3.0 * units.fg, '_units': units.fg, '_emit': em.get('qser2', False), '_serializer': 'vmon_tag'},
                      'falsy': {'_default': 3, '_emit': em['falsy'], '_updater': 'set'},
                      # an array with units and two dimensions (never updated)
                      'qgrid': {'_default': _env['np'].array([[1.75, 2.75, 3.75], [0.5, 1.5, 2.5]]) * units.fg,
                                '_emit': em.get('qgrid', False), '_updater': 'set'}},
                'shared': {'n': {'_default': 0, '_emit': True}, 'hidden': {'_default': 0, '_emit': False}},
                # a branch-level flag in the ports schema itself (the store is created by this declaration);
                # v carries a flag of its own
                'B': {'_emit': bool(self.parameters.get('bflag')), 'u': {'_default': 0},
                      'v': {'_default': 1, '_emit': not self.parameters.get('bflag')}},
            }

        def calculate_timestep(self, states):
            return self.parameters['ts']

        def next_update(self, timestep, states):
            k = states['S']['a']
            return {'S': {'a': 1, 'b': 0.5, 'q': 0.001 * units.pg, 'ser': 2, 'falsy': FALSY[k % len(FALSY)]},
                    'shared': {'n': 1, 'hidden': 1}, 'B': {'u': 1}}

    class SumStep(Step):
        def ports_schema(self):
            return {'st': {'*': {'a': {'_default': 0}}},
                    'out': {'sum': {'_default': 0, '_updater': 'set', '_emit': spec['emit_sum']}}}

        def next_update(self, timestep, states):
            # + 7: the derived value differs from its default already at the initial time
            return {'out': {'sum': 7 + sum(v['a'] for v in states['st'].values())}}

    class Twice(Step):
        def ports_schema(self):
            return {'out': {'sum': {'_default': 0}, 'twice': {'_default': 0, '_updater': 'set', '_emit': True}}}

        def next_update(self, timestep, states):
            return {'out': {'twice': 2 * states['out']['sum']}}

    class Deep(Process):
        def ports_schema(self):
            return {'D': '**', 'E': {'n': {'_default': 0, '_emit': False}}}

        def calculate_timestep(self, states):
            return 1.0

        def next_update(self, timestep, states):
            return {'E': {'n': 1}}

    class Inner(Process):
        def ports_schema(self):
            return {'P': {'z': {'_default': 9, '_emit': True, '_divider': 'set'}}}

        def calculate_timestep(self, states):
            return 1.0

        def next_update(self, timestep, states):
            return {}

    class Director(Process):
        def ports_schema(self):
            sub = {'x': {'_default': 7, '_emit': spec['emit_cell'], '_divider': 'set'},
                   'y': {'_default': 0, '_emit': not spec['emit_cell'], '_divider': 'set'}}
            return {'cells': {'*': copy.deepcopy(sub)}, 'cells2': {'*': copy.deepcopy(sub)},
                    'clk': {'_default': 0.0, '_emit': False}}

        def next_update(self, timestep, states):
            upd = {'clk': timestep}
            op = self.parameters['script'].get(str(states['clk'] + timestep))
            cells = {k: {'x': 1} for k in states['cells']}
            if op:
                if op[0] == 'add' and op[1] not in states['cells'] and spec.get('inner_procs') and len(op[1]) == 2:
                    # the child brings a process of its own, which declares (and flags) a variable z
                    cells['_generate'] = [{'key': op[1], 'processes': {'inner': Inner({})}, 'topology': {'inner': {'P': ()}},
                                           'initial_state': {'x': 100, 'y': 5}}]
                elif op[0] == 'add' and op[1] not in states['cells']:
                    cells['_add'] = [{'key': op[1], 'state': {'x': 100, 'y': 5}}]
                elif op[0] == 'delete' and op[1] in states['cells']:
                    cells.pop(op[1], None)
                    cells['_delete'] = [op[1]]
                elif op[0] == 'divide' and op[1] in states['cells']:
                    cells.pop(op[1], None)
                    cells['_divide'] = {'mother': op[1], 'daughters': [{'key': op[1] + '0'}, {'key': op[1] + '1'}]}
                elif op[0] == 'move' and op[1] in states['cells'] and op[1] not in states['cells2']:
                    cells.pop(op[1], None)
                    cells['_move'] = [{'source': (op[1],), 'target': ('cells2',)}]
            if cells:
                upd['cells'] = cells
            return upd

    class Late(Process):
        """Declares further variables (one nested) in the store that p0's port B covers with a branch-level flag;
        listed before or after p0."""
        def ports_schema(self):
            # (L2: a store below the flagged one that this wiring creates; L3: a port wired directly to a variable)
            return {'L': {'w': {'_default': 4}, 'g': {'x': {'_default': 5}}},
                    'L2': {'c': {'_default': 6}}, 'L3': {'_default': 8}}

        def next_update(self, timestep, states):
            return {'L': {'w': 1}, 'L2': {'c': 1}}

    processes = {}
    topology = {}
    if spec.get('late') == 'first':
        processes['late'] = Late({'timestep': 1.0})
    for p in spec['procs']:
        name = 'p%d' % p['pid']
        processes[name] = EmitProc({'ts': p['ts'], 'emit': p['emit'], 'bflag': p.get('bflag', True)})
        topology[name] = {'S': ('st', name), 'shared': ('shared',), 'B': ('stb', name)}
    if spec.get('late') == 'last':
        processes['late'] = Late({'timestep': 1.0})
    if spec.get('late'):
        first = ('stb', 'p%d' % spec['procs'][0]['pid'])
        topology['late'] = {'L': first, 'L2': first + ('deepn',), 'L3': first + ('lv',)}
    processes['dir'] = Director({'script': spec['script'], 'timestep': 1.0})
    processes['deepp'] = Deep({})
    topology['deepp'] = {'D': ('deep', 'blob'), 'E': ('deep',)}
    topology['dir'] = {'cells': ('cells',), 'cells2': ('cells2',), 'clk': ('clk',)}
    steps = {'sum': SumStep(), 'twice': Twice()}
    topology['sum'] = {'st': ('st',), 'out': ('out',)}
    topology['twice'] = {'out': ('out',)}
    flow = {'sum': [], 'twice': [('sum',)]}
    store_schema = {}
    for o in spec['overrides']:
        node = store_schema
        for k in o['path']:
            node = node.setdefault(k, {})
        node['_emit'] = o['emit']
    if spec.get('legacy_steps'):
        # the steps are listed among the processes (the engine finds them there) and nothing is passed as steps
        processes.update(steps)
        steps = None
    e = MonEngine(processes=processes, steps=steps, flow=flow, topology=topology,
                  initial_state={'cells': {}, 'cells2': {}, 'deep': {'blob': 7}}, display_info=False,
                  emitter={'type': 'vmon_rec', 'snapshot': True}, emit_step=emit_step,
                  store_schema=store_schema or None, initial_global_time=spec['t0'])
    return e


def flags(spec):
    """Independent projection: path-prefix -> emit flag for every leaf of the hierarchy."""
    f = {}
    for p in spec['procs']:
        name = 'p%d' % p['pid']
        for v, on in p['emit'].items():
            f[('st', name, v)] = on
    for p in spec['procs']:
        f[('stb', 'p%d' % p['pid'], 'u')] = bool(p.get('bflag', True))
        f[('stb', 'p%d' % p['pid'], 'v')] = not p.get('bflag', True)
    if spec.get('late'):
        # declared by another process (listed before or after) without flags of their own: the branch-level flag
        first = spec['procs'][0]
        f[('stb', 'p%d' % first['pid'], 'w')] = bool(first.get('bflag', True))
        f[('stb', 'p%d' % first['pid'], 'g', 'x')] = bool(first.get('bflag', True))
        f[('stb', 'p%d' % first['pid'], 'deepn', 'c')] = bool(first.get('bflag', True))
        f[('stb', 'p%d' % first['pid'], 'lv')] = bool(first.get('bflag', True))
    f[('shared', 'n')] = True
    f[('shared', 'hidden')] = False
    f[('out', 'sum')] = spec['emit_sum']
    f[('out', 'twice')] = True
    f[('clk',)] = False
    f[('deep', 'n')] = False
    f[('deep', 'blob')] = False
    for o in spec['overrides']:
        pre = tuple(o['path'])
        for k in list(f):
            if k[:len(pre)] == pre:
                f[k] = o['emit']
    return f


def expected_row(spec, snap, fl):
    units = _env['units']
    out = {}

    def put(path, value):
        node = out
        for k in path[:-1]:
            node = node.setdefault(k, {})
        node[path[-1]] = value
    # branches always appear
    for b in (('st',), ('stb',), ('shared',), ('out',), ('cells',), ('cells2',), ('deep',)):
        if not snap.get(b[0]):
            continue        # a store without children emits nothing
        node = out
        for k in b:
            node = node.setdefault(k, {})
    for p in spec['procs']:
        out['st'].setdefault('p%d' % p['pid'], {})
        out['stb'].setdefault('p%d' % p['pid'], {})
    if spec.get('late'):
        out['stb']['p%d' % spec['procs'][0]['pid']].setdefault('g', {})
        out['stb']['p%d' % spec['procs'][0]['pid']].setdefault('deepn', {})
    for path, v in flat(snap).items():
        if not path:
            continue
        if path[0] in ('cells', 'cells2'):
            if len(path) == 1:
                continue
            out.setdefault(path[0], {}).setdefault(path[1], {})
            if len(path) == 3:
                on = spec['emit_cell'] if path[2] == 'x' else (not spec['emit_cell'] if path[2] == 'y' else path[2] == 'z')
                for o in spec['overrides']:
                    if o['path'] == [path[0]]:
                        on = o['emit']      # a branch-level flag on the glob store covers every child, whenever it was added
                if on:
                    put(path, v)
            continue
        on = fl.get(path)
        if on is None and len(path) > 3:
            on = fl.get(path[:3])
        if not on:
            continue
        if path[-1] in ('q', 'q2'):
            v = '!units[%s]' % str(v.to(units.fg))
        elif path[-1] == 'ser':
            v = 'tag:%s' % (v,)
        elif path[-1] in ('qser', 'qser2'):
            v = 'tag:%s' % (v.to(units.fg),)
        elif path[-1] == 'qgrid':
            v = [['!units[%s]' % str(x) for x in row] for row in v.to(units.fg)]
        put(path, v)
    return out


def run_once(spec, emit_step):
    from vmon.sensors import Mon, drive
    m = Mon()
    Mon.cur = m
    try:
        e = build(spec, emit_step)
        ok, exc = drive(e, m, spec['calls'], lambda iv: 4000)
    finally:
        Mon.cur = None
    return m, ok, exc


def gen_flat(r):
    """Every variable is a leaf directly under the root (ports wired to root-level nodes); often nothing at
    all is flagged for emission: the rows are empty but there is still one per update time."""
    n = r.randint(1, 3)
    none = r.random() < 0.5
    procs = [{'pid': pid, 'ts': r.choice(TS), 'emit': {v: (not none and r.random() < 0.5) for v in ('a', 'b')}} for pid in range(n)]
    calls = [[r.choice(IV[:5]), r.choice([True, False, 'update'])] for _ in range(r.randint(1, 3))] + [[r.choice([1.0, 2.0, 2.5]), 'update']]
    return {'family': 'flat', 'procs': procs, 'calls': calls, 't0': r.choice([0, 0, 2.0]), 'empty_store': r.random() < 0.5}


def run_flat(spec):
    from vmon.sensors import MonEngine, Mon, drive
    from vivarium.core.process import Process
    V = Viol()

    class FlatProc(Process):
        def ports_schema(self):
            pid = self.parameters['pid']
            return {'%s%d' % (v, pid): {'_default': 0, '_emit': on} for v, on in self.parameters['emit'].items()}

        def calculate_timestep(self, states):
            return self.parameters['ts']

        def next_update(self, timestep, states):
            return {k: 1 for k in states}
    processes = {'p%d' % p['pid']: FlatProc(dict(p)) for p in spec['procs']}
    topology = {'p%d' % p['pid']: {'%s%d' % (v, p['pid']): ('%s%d' % (v, p['pid']),) for v in p['emit']} for p in spec['procs']}
    m = Mon()
    Mon.cur = m
    try:
        e = MonEngine(processes=processes, topology=topology, display_info=False,
                      initial_state={'void': {}} if spec.get('empty_store') else None,
                      emitter={'type': 'vmon_rec', 'snapshot': True}, initial_global_time=spec['t0'])
        ok, exc = drive(e, m, spec['calls'], lambda iv: 4000)
    except Exception as ex:
        import traceback
        V.check('no_exception', False, ('flat composite raised', type(ex).__name__, str(ex)[:200], traceback.format_exc()[-300:]))
        return {'viol': list(V), 'evals': V.evals, 'nontrivial': False}
    finally:
        Mon.cur = None
    if not ok:
        V.check('no_exception', False, ('run did not return normally', repr(exc)[:300]))
    hist = [ev for ev in m.events if ev[0] == 'emit' and ev[1] == 'history']
    times = [ev[2] for ev in hist]
    due = due_times(dict(spec, no_director=True))
    V.check('initial_row', bool(times) and times[0] == spec['t0'], lambda: ('no row for the initial time', times[:5]))
    if ok:
        V.check('row_per_update_time', times[1:] == due,
                lambda: ('rows are not exactly one per time at which updates were applied (rows, update times)', times[:20], due[:20]))
    on = {'%s%d' % (v, p['pid']) for p in spec['procs'] for v, f in p['emit'].items() if f}
    for ev in hist:
        exp = {k: v for k, v in ev[4].items() if k in on}
        V.check('row_content', _eq(prune(ev[3]), prune(exp)),
                lambda: ('row at t=%r differs from the flagged root-level variables' % ev[2], ev[3], exp))
    return {'viol': list(V), 'evals': V.evals, 'nontrivial': len(hist) >= 3, 'classes': ['flat_root', 'nothing_flagged' if not on else 'some_flagged'],
            'summary': {'rows': len(hist)}}


def run(spec):
    if spec.get('family') == 'procnode':
        return run_procnode(spec)
    if spec.get('family') == 'flat':
        return run_flat(spec)
    V = Viol()
    try:
        m, ok, exc = run_once(spec, 1)
    except Exception as ex:
        import traceback
        V.check('no_exception', False, ('constructor raised', type(ex).__name__, str(ex)[:200], traceback.format_exc()[-400:]))
        return {'viol': list(V), 'evals': V.evals, 'nontrivial': False}
    if not ok:
        V.check('no_exception', False, ('run did not return normally', repr(exc)[:300]))
    fl = flags(spec)
    emits = [ev for ev in m.events if ev[0] == 'emit']
    V.check('configuration_first', bool(emits) and emits[0][1] == 'configuration' and
            sum(1 for ev in emits if ev[1] == 'configuration') == 1,
            lambda: ('first record is not the (single) configuration record', [ev[1] for ev in emits[:3]]))
    hist = [ev for ev in emits if ev[1] == 'history']
    first_hist_idx = next((i for i, ev in enumerate(m.events) if ev[0] == 'emit' and ev[1] == 'history'), None)
    init_steps = [ev for ev in m.events[:first_hist_idx or 0] if ev[0] == 'set']
    V.check('initial_row', bool(hist) and hist[0][2] == spec['t0'] and not init_steps,
            lambda: ('first history row is not at the initial time', hist[0][2] if hist else None, spec['t0']))
    times = [ev[2] for ev in hist]
    # Known finding: a forced call over an empty interval completes, at the current global time T, the
    # processes an earlier unforced call left behind; when T already has a row the engine emits a second
    # row for T. Exactly that history is labelled with its mechanism; any other repeated or decreasing
    # time key is not.
    from vmon.sensors import superseded_rows
    sup = superseded_rows(m.events)
    pairs = list(enumerate(zip(times, times[1:])))
    V.check('times_increasing', all(b > a or (b == a and sup[i]) for i, (a, b) in pairs),
            lambda: ('row times not strictly increasing', times[:30]))
    V.check('times_increasing', not any(b == a and sup[i] for i, (a, b) in pairs),
            lambda: ('second row for a time that already had one, emitted by a forced call over an empty interval',
                     [a for i, (a, b) in pairs if b == a][:4], spec['calls']),
            mechanism='second-row-after-empty-forced-interval')
    # one row per time at which updates were applied
    apply_times = set()
    last_emit_t = None
    for ev in m.events:
        if ev[0] == 'emit' and ev[1] == 'history':
            last_emit_t = ev[2]
        elif ev[0] == 'set':
            pass
    # (apply times are the global times of the batches: after every set that is followed by an emit or apply)
    # state-change-after-row and row-before-steps: scan the ordered log
    cur_t = spec['t0']
    emitted_at = set()
    changed_since = {}
    prev_snap = None
    for ev in m.events:
        if ev[0] == 'set':
            cur_t = ev[2]
        elif ev[0] == 'emit' and ev[1] == 'history':
            emitted_at.add(ev[2])
            snap = ev[4]
            exp = expected_row(spec, snap, fl)
            # branches without emitted variables carry no information: {} and absence are the same row
            V.check('row_content', _eq(prune(_noproc(ev[3])), prune(exp)),
                    lambda: ('row at t=%r differs from the emit-flagged projection of the hierarchy' % ev[2],
                             _diff(ev[3], exp)))
            if prev_snap is not None and not _eq(prev_snap[1], snap):
                apply_times.add(ev[2])
            prev_snap = (ev[2], snap)
    # every time at which the state changed has exactly one row: compare snapshots at consecutive
    # clock values - a state change between two rows must be covered by the later row's time
    # rows: exactly one per distinct clock value at which an emit happened
    unexplained = [t for i, t in enumerate(times) if times.count(t) > 1 and not sup[i] and not (i and sup[i - 1])]
    V.check('row_per_update_time', not unexplained,
            lambda: ('more than one row for one time', unexplained[:6]))
    # batches: clock values after which a process update was applied = those where the director/processes were due
    due = due_times(spec)
    missing = [t for t in due if t not in emitted_at]
    V.check('row_per_update_time', not missing or not ok,
            lambda: ('no row for a time at which updates were applied', missing[:6], times[:30]))
    # final state equals last row's snapshot, and no state change after the row of the same time
    if ok and prev_snap is not None:
        from vmon.sensors import plain_values
        final = plain_values(m.eng.state.get_value())
        V.check('no_change_after_row', _eq(final, prev_snap[1]) or prev_snap[0] != m.eng.global_time,
                lambda: ('state changed after the row of the same time was emitted', _diff(final, prev_snap[1])))
    # steps precede the row of their tick: 'twice' == 2*'sum' == 2*(7 + sum(a)) in every snapshot
    for ev in hist:
        snap = ev[4]
        s = 7 + sum(v['a'] for v in snap.get('st', {}).values())
        V.check('row_after_steps', snap['out']['sum'] == s and snap['out']['twice'] == 2 * s,
                lambda: ('row at t=%r emitted before that time\'s step phase completed' % ev[2], snap['out'], s))
    # emit_step differential
    rows1 = {}
    for ev in hist:
        rows1.setdefault(ev[2], []).append(ev[3])
    for k in spec['emit_steps']:
        try:
            mk, okk, exck = run_once(spec, k)
        except Exception as ex:
            V.check('no_exception', False, ('emit_step run raised', k, repr(ex)[:200]))
            continue
        hk = [ev for ev in mk.events if ev[0] == 'emit' and ev[1] == 'history']
        tk = [ev[2] for ev in hk]
        V.check('emit_step_no_duplicates', len(tk) == len(set(tk)) and all(b > a for a, b in zip(tk, tk[1:])),
                lambda: ('emit_step=%r delivers several rows for one time' % k, tk[:20]))
        bad = [ev[2] for ev in hk if not any(_eq(prune(_noproc(r1)), prune(_noproc(ev[3]))) for r1 in rows1.get(ev[2], []))]
        V.check('emit_step_subset', not bad and (not hk or hk[0][2] == spec['t0']),
                lambda: ('emit_step=%r rows are not a subset of the emit_step=1 rows with equal content' % k, bad[:6]))
        total = sum(c[0] for c in spec['calls'])
        if okk and total >= 2 * k and any(c[0] >= 2 * k for c in spec['calls']):
            V.check('emit_step_subset', len(hk) >= 2, lambda: ('emit_step=%r emitted no row during a run of %r' % (k, total), tk))
    nflags = len({v for p in spec['procs'] for v in p['emit'].values()})
    nt = len(hist) >= 4 and nflags >= 2 and (bool(spec['overrides']) or bool(spec['script']))
    return {'viol': list(V), 'evals': V.evals, 'stats': {'rows': len(hist), 'structural_ops': len(spec['script'])},
            'nontrivial': nt, 'classes': ['overrides' if spec['overrides'] else 'no_overrides',
                                          'structural' if spec['script'] else 'static',
                                          't0_nonzero' if spec['t0'] else 't0_zero'] +
            (['glob_child_moved'] if any(ev[4].get('cells2') for ev in hist) else []) +
            (['glob_child_divided'] if any(len(c) > 2 and c[:-1] in dict(spec['script'].values() and
                                                                        [(o[1], 1) for o in spec['script'].values() if o[0] == 'divide'])
                                           for ev in hist for c in ev[4].get('cells', {})) else []),
            'summary': {'rows': len(hist), 'emit_steps': spec['emit_steps']}}


def _noproc(d):
    """A row without process nodes (a branch-level flag also covers the node that holds a process; processes are
    not variables and are not judged)."""
    from vivarium.core.process import Process
    if isinstance(d, dict):
        return {k: _noproc(v) for k, v in d.items() if not isinstance(v, Process) and
                not (isinstance(v, tuple) and v and isinstance(v[0], Process))}
    return d


def due_times(spec):
    """Exact (dyadic) end times of the intervals of every always-on process (incl. the director)."""
    from vmon import sched
    calls = [(iv, bool(f)) for iv, f in spec['calls']]
    due = set()
    for ts in [p['ts'] for p in spec['procs']] + ([] if spec.get('no_director') else [1.0]):
        ivs, S, t = sched.model_always_on({'ts': {'kind': 'const', 'v': ts}}, calls, spec['t0'], 'dyadic')
        due.update(float(E) for (k, S_k, E, arg) in ivs)
    return sorted(due)


def _eq(a, b):
    if isinstance(a, dict) and isinstance(b, dict):
        return a.keys() == b.keys() and all(_eq(a[k], b[k]) for k in a)
    if hasattr(a, 'units') or hasattr(b, 'units'):
        import numpy as np
        return hasattr(a, 'units') and hasattr(b, 'units') and a.units == b.units and \
            np.shape(a.magnitude) == np.shape(b.magnitude) and \
            bool(np.all(abs(a.magnitude - b.magnitude) <= 1e-12 * (1 + abs(b.magnitude))))
    return type(a) is type(b) and a == b


def _diff(a, b, p=()):
    if isinstance(a, dict) and isinstance(b, dict):
        out = []
        for k in sorted(set(a) | set(b), key=str):
            if k not in a or k not in b:
                out.append(('/'.join(map(str, p + (k,))), 'in row only' if k in a else 'missing from row',
                            repr(a.get(k, b.get(k)))[:60]))
            else:
                out += _diff(a[k], b[k], p + (k,))
        return out[:6]
    return [] if _eq(a, b) else [('/'.join(map(str, p)), repr(a)[:60], repr(b)[:60])]


MANIFEST = {
    'text': 'Exploration: generated composites (emit flags per variable, units, custom serializer, falsy values, store_schema leaf/branch overrides, steps whose outputs are emitted, children added/deleted under a glob) x schedules; a recording emitter at the public emitter boundary captures every emit() call and a snapshot of the live hierarchy; the checker validates record grammar, one row per update time, strictly increasing times, row content == independent projection of the flags, no change after a row, rows after the step phase, and - by re-running each case with emit_step in {2, 3, 0.5, 2.5} - the subset law.',
    'note': 'Emit flags come from the generated schema; subset choice for larger emit_step not asserted; rows at quiet-only ticks allowed.',
    'technique': 'runtime monitoring: recording emitter + hierarchy snapshots checked offline; differential runs for emit_step',
}
