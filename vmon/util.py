"""Small helpers shared by the checks (pure Python, no vivarium imports)."""
import copy


def T(x):
    """JSON lists -> tuples (paths), recursively for lists of paths."""
    if isinstance(x, list):
        return tuple(T(i) for i in x)
    return x


def leaves(d, p=()):
    out = {}
    for k, v in d.items():
        if isinstance(v, dict):
            out.update(leaves(v, p + (k,)))
        else:
            out[p + (k,)] = v
    return out


def flat(d, p=()):
    """Leaves, with empty dictionaries kept as leaves."""
    out = {}
    if isinstance(d, dict):
        for k, v in d.items():
            out.update(flat(v, p + (k,)))
        if not d:
            out[p] = {}
    else:
        out[p] = d
    return out


def nest(paths):
    d = {}
    for p, v in paths.items():
        n = d
        for k in p[:-1]:
            n = n.setdefault(k, {})
        n[p[-1]] = v
    return d


def dict_nodes(d, p=()):
    out = [p]
    for k, v in d.items():
        if isinstance(v, dict):
            out += dict_nodes(v, p + (k,))
    return out


def get(d, path, default=None):
    n = d
    for k in path:
        if not isinstance(n, dict) or k not in n:
            return default
        n = n[k]
    return n


def through_leaf(d, path):
    """True if walking ``path`` in ``d`` would have to descend into a non-dict."""
    n = d
    for k in path:
        if not isinstance(n, dict):
            return True
        if k not in n:
            return False
        n = n[k]
    return False


def prune(d):
    """Drop empty dictionaries (and None) recursively."""
    if isinstance(d, dict):
        o = {k: prune(v) for k, v in d.items()}
        return {k: v for k, v in o.items() if not (isinstance(v, dict) and not v) and v is not None}
    return d


def norm_path(path):
    out = []
    for s in path:
        if s == '..' and out and out[-1] != '..':
            out.pop()
        else:
            out.append(s)
    return tuple(out)


def rel_path(frm, to):
    i = 0
    while i < len(frm) and i < len(to) and frm[i] == to[i]:
        i += 1
    return ('..',) * (len(frm) - i) + tuple(to[i:])


def jsonable(x):
    """Best-effort conversion for evidence / replay output."""
    if isinstance(x, dict):
        return {str(k): jsonable(v) for k, v in x.items()}
    if isinstance(x, (list, tuple, set)):
        return [jsonable(v) for v in x]
    if isinstance(x, (int, float, str, bool)) or x is None:
        return x
    return repr(x)


class Viol(list):
    """Collects violations and counts oracle evaluations."""

    def __init__(self):
        super().__init__()
        self.evals = {}

    def check(self, oracle, ok, detail=None, mechanism=None):
        self.evals[oracle] = self.evals.get(oracle, 0) + 1
        if not ok:
            if callable(detail):
                detail = detail()
            self.append({'oracle': oracle, 'detail': jsonable(detail), 'mechanism': mechanism})
        return ok

    def count(self, oracle, n=1):
        self.evals[oracle] = self.evals.get(oracle, 0) + n


def harvest(res, oracles, classes=None):
    """Result of one check's run() restricted to some of its oracles (for a check of another property that
    reuses the workload): violations and evaluation counts of those oracles only."""
    viol = [v for v in res.get('viol', []) if v.get('oracle') in oracles]
    evals = {k: n for k, n in res.get('evals', {}).items() if k in oracles}
    return {'viol': viol, 'evals': evals, 'nontrivial': bool(res.get('nontrivial')) and bool(evals),
            'classes': classes or [], 'summary': {'harvested': sorted(evals)}}
