"""Harness-side sensors: a monitored Engine (clock property), ledger processes
and steps returning unique tokens, an append-only ledger updater and a recording
emitter. Nothing here edits the repository; everything is attached through the
public extension points (subclassing, registries)."""
import copy

import vivarium  # noqa: registers the built-in updaters / emitters
from vivarium.core.engine import Engine
from vivarium.core.process import Process, Step
from vivarium.core.emitter import Emitter
from vivarium.core.registry import emitter_registry, updater_registry


def add_counts(current, update):
    """Updater of a dictionary-valued variable: adds the amounts key by key."""
    result = dict(current)
    for key, amount in update.items():
        result[key] = result.get(key, 0) + amount
    return result


class BudgetExceeded(BaseException):
    """More clock assignments in one run_for() than any terminating schedule
    of this size can need (logical non-termination witness)."""


class InjectedFault(Exception):
    """Raised on purpose by a workload process / emitter (fault injection)."""


class Mon:
    """Event log of one engine. ``Mon.cur`` is the monitor of the engine that
    is currently being driven (one at a time per worker process)."""
    cur = None

    def __init__(self):
        self.events = []
        self.eng = None
        self.budget = None
        self.sets_in_call = 0
        self.call_end = None
        self.online = []       # violations found by online monitors

    def now(self):
        if self.eng is not None and '_gt' in self.eng.__dict__:
            return self.eng.global_time
        return getattr(self, 't0', None)      # during construction

    def ev(self, *a):
        self.events.append(a)

    def begin_call(self, kind, interval, force, budget):
        start = self.now()
        self.call_end = None if start is None else start + interval
        self.sets_in_call = 0
        self.budget = budget
        self.ev('call', kind, interval, force, start)

    def end_call(self):
        self.ev('ret', self.now())
        self.budget = None
        self.call_end = None


class MonEngine(Engine):
    """Engine whose clock is a property: every scheduler iteration assigns it."""

    @property
    def global_time(self):
        return self.__dict__['_gt']

    @global_time.setter
    def global_time(self, v):
        old = self.__dict__.get('_gt')
        self.__dict__['_gt'] = v
        m = Mon.cur
        if m is None:
            return
        if old is None:
            m.eng = self        # first assignment happens inside the constructor
            return
        m.ev('set', old, v)
        m.sets_in_call += 1
        if m.budget is not None and m.sets_in_call > m.budget:
            raise BudgetExceeded('%d clock assignments in one call (budget %d); last %r -> %r' % (
                m.sets_in_call, m.budget, old, v))


def v_append(current, new):
    """Append-only ledger updater: one 'apply' event per applied leaf update."""
    m = Mon.cur
    if m is not None:
        for tok in new:
            m.ev('apply', tuple(tok), m.now())
    return current + list(new)


def v_append_own(current, new):
    """Private ledger of one process (second, independent record)."""
    m = Mon.cur
    if m is not None:
        for tok in new:
            m.ev('apply_own', tuple(tok), m.now())
    return current + list(new)


if updater_registry.access('v_append') is None:
    updater_registry.register('v_append', v_append)
    updater_registry.register('v_append_own', v_append_own)


class RecordingEmitter(Emitter):
    """Records every emit() call in order (table, time, deep-copied row)."""

    def __init__(self, config):
        super().__init__(config)
        self.fail_at = config.get('fail_at')
        self.n = 0

    def emit(self, data):
        m = Mon.cur
        self.n += 1
        if self.fail_at is not None and self.n == self.fail_at:
            raise InjectedFault('emitter fault at emit #%d' % self.n)
        if m is None:
            return
        if data['table'] == 'history':
            row = copy.deepcopy({k: v for k, v in data['data'].items() if k != 'time'})
            snap = None
            if self.config.get('snapshot') and m.eng is not None:
                snap = copy.deepcopy(plain_values(m.eng.state.get_value()))
            m.ev('emit', 'history', data['data'].get('time'), row, snap)
        else:
            m.ev('emit', data['table'], None, None)


if emitter_registry.access('vmon_rec') is None:
    emitter_registry.register('vmon_rec', RecordingEmitter)


def plain_values(tree):
    """Hierarchy values without the (process, topology) leaves."""
    if isinstance(tree, dict):
        return {k: plain_values(v) for k, v in tree.items()
                if not (isinstance(v, tuple) and len(v) == 2 and isinstance(v[0], Process))
                and not isinstance(v, Process)}
    return tree


def _ts_answer(spec, k, polls, states=None):
    kind = spec['kind']
    if kind == 'state':            # state-dependent (adaptive) timestep
        return spec['seq'][len(states['log']) % len(spec['seq'])]
    if kind == 'const':
        return spec['v']
    if kind == 'indexed':          # function of the process's own invocation index
        return spec['seq'][k % len(spec['seq'])]
    if kind == 'poll':             # changes at every poll (hostile)
        return spec['seq'][polls % len(spec['seq'])]
    raise ValueError(kind)


import numpy as _np
VEC0 = _np.zeros(2, dtype=int)


class Ledger(Process):
    """Workload process. parameters:
      pid, ts (timestep spec), cond (None | 'flag' | 'never' | {'seq': [...]}),
      cond_path (use the built-in _condition parameter instead of an override),
      toggle (flip the shared flag at every toggle-th invocation),
      log_port variables: log (shared ledger), own (private ledger),
      acc (numeric accumulator), clock (accumulates the timestep argument).
    """

    def __init__(self, parameters=None):
        super().__init__(parameters)
        self.k = 0
        self.polls = 0
        self.cpolls = 0

    def ports_schema(self):
        schema = {
            'log': {'_default': [], '_updater': 'v_append', '_emit': True},
            'own': {'_default': [], '_updater': 'v_append_own', '_emit': True},
            'acc': {'_default': 0, '_emit': True},
            'clock': {'_default': 0.0, '_emit': True},
            'flag': {'_default': True, '_updater': 'set', '_emit': True},
        }
        if self.parameters.get('amount2'):
            # a second port wired to the accumulator's node: one returned update carries two parts for it
            schema['acc2'] = {'_default': 0, '_emit': True}
        if self.parameters.get('blob'):
            # a variable the scenario may fill with something that cannot be sent to a worker
            schema['blob'] = {'_default': 0, '_updater': 'set'}
        if self.parameters.get('tvar'):
            # an emitted variable directly under the root that is called 'time' (an elapsed-time counter of the
            # model's own): the time key of a row is still the engine's global time
            schema['tv'] = {'_default': 0.25, '_emit': True}
        if self.parameters.get('vec'):
            # two array-valued accumulators declared with ONE default object
            schema['vec'] = {'_default': VEC0, '_emit': True}
            schema['vec2'] = {'_default': VEC0, '_emit': True}
        if self.parameters.get('pair'):
            # two dictionary ports wired to one store; their parts of the update are dictionaries the
            # process builds once and returns at every invocation
            schema['da'] = {'x': {'_default': 0, '_emit': True}, 'g': {'u': {'_default': 0, '_emit': True}}}
            schema['db'] = {'y': {'_default': 0, '_emit': True}, 'g': {'v': {'_default': 0, '_emit': True}}}
            if self.parameters.get('tally'):
                # one dictionary-valued VARIABLE (its updater adds the counts key by key) declared by both ports;
                # the two ports send different key sets
                schema['da']['tally'] = {'_default': {}, '_updater': add_counts, '_emit': True}
                schema['db']['tally'] = {'_default': {}, '_updater': add_counts, '_emit': True}
        return schema

    def calculate_timestep(self, states):
        ts = _ts_answer(self.parameters['ts'], self.k, self.polls, states)
        self.polls += 1
        m = Mon.cur
        if m is not None:
            m.ev('poll', self.parameters['pid'], m.now(), ts, len(states['log']) if states else None)
        return ts

    def update_condition(self, timestep, states):
        c = self.parameters.get('cond')
        if self.condition_path:
            res = super().update_condition(timestep, states)
        elif c is None:
            res = True
        elif c == 'flag':
            res = states['flag']
        elif c == 'never':
            res = False
        else:
            res = bool(c['seq'][self.cpolls % len(c['seq'])])
        self.cpolls += 1
        m = Mon.cur
        if m is not None:
            m.ev('cond', self.parameters['pid'], m.now(), bool(res))
        return res

    def next_update(self, timestep, states):
        pid = self.parameters['pid']
        k = self.k
        self.k += 1
        fail = self.parameters.get('fail_at')
        if fail is not None and k == fail:
            raise InjectedFault('process %s fault at invocation %d' % (pid, k))
        tok = (pid, k, timestep, len(states['log']))
        m = Mon.cur
        if m is not None:
            m.ev('invoke', 'process', tok, m.now(), tuple(tuple(t) for t in states['log']))
        amount = self.parameters.get('amount', 1)
        upd = {'log': [tok], 'own': [tok], 'acc': amount, 'clock': timestep}
        if self.parameters.get('amount2'):
            upd['acc2'] = self.parameters['amount2']
        if self.parameters.get('tvar'):
            upd['tv'] = 0.3
        if self.parameters.get('reset_at') == k:
            # one update names its own updater (the accumulator is set to 1000); the later plain ones accumulate again
            upd['acc'] = {'_updater': 'set', '_value': 1000}
        if self.parameters.get('vec'):
            import numpy as np
            upd['vec'] = np.array([amount, 2 * amount])
            upd['vec2'] = np.array([3 * amount, 3 * amount])
        if self.parameters.get('pair'):
            if not hasattr(self, '_pair'):
                self._pair = ({'x': amount, 'g': {'u': amount}}, {'y': 10 * amount, 'g': {'v': 10 * amount}})
                if self.parameters.get('tally'):
                    self._pair[0]['tally'] = {'a': amount, 'b': 2 * amount}
                    self._pair[1]['tally'] = {'a': 3 * amount}
            upd['da'], upd['db'] = self._pair
        tg = self.parameters.get('toggle')
        if tg and self.k % tg == 0:
            upd['flag'] = not states['flag']
            if m is not None:
                m.ev('flagset', (pid, k), upd['flag'])
        return upd


class LedgerP(Ledger):
    """Ledger with timestep kind 'param': keeps the default Process.calculate_timestep (which answers
    parameters['timestep']) and changes that parameter itself after every invocation - to the scheduler
    the same as kind 'indexed'."""
    calculate_timestep = Process.calculate_timestep

    def next_update(self, timestep, states):
        upd = super().next_update(timestep, states)
        seq = self.parameters['ts']['seq']
        self.parameters['timestep'] = seq[self.k % len(seq)]
        return upd


class LedgerStep(Step):
    """Workload step: token carries the ledger it saw."""

    def __init__(self, parameters=None):
        super().__init__(parameters)
        self.k = 0

    def ports_schema(self):
        return {'log': {'_default': [], '_updater': 'v_append', '_emit': True}}

    def next_update(self, timestep, states):
        sid = self.parameters['sid']
        k = self.k
        self.k += 1
        tok = (sid, k, timestep, len(states['log']))
        m = Mon.cur
        if m is not None:
            m.ev('invoke', 'step', tok, m.now(), tuple(tuple(t) for t in states['log']))
        return {'log': [tok]}


class Declared(Process):
    """Declares parameters['schema'] and does nothing (module level: can be sent to a worker)."""

    def ports_schema(self):
        return self.parameters['schema']

    def next_update(self, timestep, states):
        return {}


class LedgerDuck(Process):
    """A step by configuration: not a Step subclass, it answers is_step() itself; listed among the processes."""

    def __init__(self, parameters=None):
        super().__init__(parameters)
        self.k = 0

    def is_step(self):
        return True

    ports_schema = LedgerStep.ports_schema
    next_update = LedgerStep.next_update


def drive(engine, mon, calls, budget_fn):
    """Run the call sequence [(interval, force|'update')] under budgets.
    Returns (completed, exception) - BudgetExceeded / user exceptions are
    recorded as events, not raised."""
    for interval, force in calls:
        kind = 'update' if force == 'update' else 'run_for'
        mon.begin_call(kind, interval, bool(force), budget_fn(interval))
        try:
            if kind == 'update':
                engine.update(interval)
            else:
                engine.run_for(interval, force_complete=bool(force))
        except BudgetExceeded as e:
            mon.ev('budget', str(e))
            mon.budget = None
            return False, e
        except Exception as e:  # noqa
            mon.ev('exception', type(e).__name__, str(e)[:300])
            mon.budget = None
            return False, e
        mon.end_call()
    return True, None


def superseded_rows(events):
    """One flag per history row in the event log: True when the next row carries the same time and was
    emitted during a forced call over an empty interval (such a call completes, at the current global time,
    processes that an earlier unforced call left behind; when that time already has a row, the engine emits
    a second one for it - the second row is the complete one)."""
    rows = []
    in_empty_forced = False
    for ev in events:
        if ev[0] == 'call':
            in_empty_forced = bool(ev[3]) and ev[2] == 0
        elif ev[0] == 'ret':
            in_empty_forced = False
        elif ev[0] == 'emit' and ev[1] == 'history':
            rows.append((ev[2], in_empty_forced))
    return [i + 1 < len(rows) and rows[i + 1][0] == t and rows[i + 1][1] for i, (t, _) in enumerate(rows)]
