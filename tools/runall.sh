#!/bin/bash
# run every check of a tier with a seed: tools/runall.sh quick 3
cd "$(dirname "$0")/.."
tier=${1:-quick}; seed=${2:-0}
for i in 01 02 03 04 05 06 07 08 09 10 11 12 13 14 15 16 17 18 19; do
  VERIF_SEED=$seed ./check C$i --tier $tier ${3:-} 2>&1 | grep -v "^  " | tail -2 | tr '\n' ' '; echo
done
