#!/usr/bin/env python3
"""Regenerates seeded/INDEX.md from seeded/*/meta.json (+ the notes below on seeds that were missed at first)."""
import glob
import json
import os

HOME = os.path.dirname(os.path.dirname(os.path.abspath(__file__)))
MISSED_AT_FIRST = {
    'C04-1': 'caught only by C05 (equal views per generation) at first; C04 now has its own step-layer oracle (flow steps without dependencies must all see one ledger)',
    'C06-1': "missed: generator never put '_path' inside the '*' dictionary; topo.gen_case now places the glob path at port level, inside '*', or split over both",
    'C10-1': 'missed: the cell had one deriver nobody depended on; cells now carry a deriver chain (drv -> drv2) with derived-value and deriver-order oracles',
    'C16-1': 'missed: templates had flat steps/flow and merge paths rarely nested; composers now have nested steps+flow and merge paths come from a small colliding pool',
    'C05-2': 'missed by C05 (no structural updates there), caught by C10 after deriver-only generated compartments were added; C05 now also generates steps at run time',
    'C10-2': 'missed: every generated compartment had flow steps (which reset the cache); the director now also generates deriver-only compartments',
    'C07-2': 'missed: structural updates never travelled together with an ordinary update to a sibling branch; the timed director now pokes the other children in the same update',
    'C11-2': 'missed: every variable was declared by the dividing compartment\'s own process; two variables are now declared only by an outside process through the glob sub-schema',
    'C12-2': 'missed: the unit variable\'s default was given in its declared unit; a second variable now has its default in another compatible unit and is never updated',
    'C04-2': 'caught only by C08 at first (in-place accumulate on arrays); C04\'s permutation class now has a process that hands the array it was shown back as its update',
    'C15-2': 'missed: every Composite was used once; C15 now builds a second store from the same Composite without initial state',
    'C16-2': 'missed: overrides were always merged before the composite was first loaded; C16 now also merges the override after a first generate_store()',
    'C17-2': 'missed: trees were static; C17 now re-checks path_for / path_to / get_path after a subtree was moved with the real Store.move',
    'C18-2': "missed: variable names never collided with the time key; nested variables may now be called 'time' / 'value'",
    'C01-3': 'missed at first by C01 (parallel cases had no conditions), caught by C13 only after conditions were added there; both now generate update conditions on parallel processes',
    'C02-3': 'missed by C02 (always-on processes only; caught by C01): C02 now has a non-overlap oracle for conditional processes',
    'C09-3': 'missed: an _add list never named one key twice; op kind add_dup added',
    'C10-3': 'missed: every initial composite had flow entries; initial composites may now have no flow at all (flow steps arrive later)',
    'C13-3': 'missed: leaked workers were reaped by the harness\'s own final garbage collection; workers of deleted parallel processes are now checked while the run is still alive, and cells may hold a parallel flow step',
    'C11-3': 'missed: dictionary-form dividers only sat on leaves; two branch-level dictionary-form dividers added',
    'C05-3': 'missed by C05 (no deletion there; caught by C10): C05 now has a step that deletes a generated compartment mid-phase',
    'C12-3': 'missed: no variable had both a custom serializer and a quantity default; variable qser added',
    'C19-3': 'missed: every event had its own change dictionary; one dictionary object may now be listed at several times',
    'C18-3': 'missed: rows always reached the emitter in time order; a fifth of the histories is now emitted out of order and judged by alignment',
    'C16-3': 'missed: merges only went into Composite({}); the receiving composite may now be composer-generated, and a composite generated afterwards must be pristine',
    'C15-3': 'missed: the declaring process was never a Step and glob children never held processes; both added to the generator',
    'C06-4': 'missed: every shared node sat in a branch; the topology generator now also puts leaves directly under the root',
    'C01-4': 'same change as C06-4, written independently for C01; missed by C01 (no process wired two ports to one node): a quarter of the ledger processes now have a second port on their accumulator\'s node',
    'C02-4': 'missed: no call had an empty interval; the schedule generators of C01-C03 (and C12) now produce them - which uncovered the genuine defect D31 and the known finding F1',
    'C04-4': 'caught by C07 and C10 at first, not by C04 (no structural updates there): the permutation class now has a process that adds glob children and writes a second branch port in one update, and a census process on the glob',
    'C09-4': 'missed: every update object was used once; op kind delete_reissued hands the same _delete update in again (and the update-object comparison, harvested by C08, uncovered D32)',
    'C13-4': 'missed: every workload process overrode calculate_timestep; timestep kind param (default calculate_timestep, the process changes parameters[timestep] itself) added to the schedule generators',
    'C14-4': 'missed: the serialized tree was never looked at again after deserialize_value; oracle serialized_kept, and the emitter is read twice',
    'C15-4': 'missed: initial_state() placement was only asserted for nodes with a single declaring variable; several variables of one process on one node now supply one value',
    'C01-5': 'missed: processes returned fresh update dictionaries; a fifth of the ledger processes now have two dictionary ports on one store whose update dictionaries are built once and returned every time',
    'C05-5': 'caught by C10 (replace operation) but missed by C05: the generated compartment was never generated again after its deletion; C05 now generates it a second time (same key, same step names)',
    'C06-5': 'missed: all colliding updates were non-zero increments under accumulate; shared-node family added (2-4 port variables on one node with a log or set updater, falsy updates)',
    'C08-5': 'missed: the default of a variable with declared units was always written in those units; defaults in another compatible unit added',
    'C09-5': 'missed: _add only created branch children with truthy dictionary states; op kind add_leaf (glob store of plain variables, falsy states)',
    'C12-5': 'missed: the root always had non-empty branches; flat family added (all variables directly under the root, often nothing flagged: empty rows must still be emitted)',
    'C14-5': 'missed: only exact built-in types; two subclasses of set and of ndarray (and masked arrays) added',
    'C15-5': 'missed: glob sub-schemas were declared by one process; family with 2-3 processes declaring nested sub-variables for the children of one glob store added',
    'C16-5': 'missed: ports_schema() always built a fresh dictionary; in 40% of the cases every instance now hands out one class-level schema object',
    'C01-6': 'caught by C04 and C08 at first (in-place accumulate), not by C01: the ledger processes now may have two array accumulators declared with one default object',
    'C02-6': 'caught by C10 at first, not by C02 (no processes entering at run time there): C02 now has a structural family that reuses C10\'s workload and is judged on starts_at_creation / schedule_contiguous',
    'C04-6': 'caught by C10 at first (the run raised), not by C04: structural family (C10\'s workload, judged on layer_same_snapshot - a Lag step in one layer with the step whose output it reads - and no_exception)',
    'C05-6': 'caught by C10 at first, not by C05: structural family (C10\'s workload judged on the step clauses)',
    'C06-6': 'a stale-view change: caught by C07 at first; C05 now has a watcher step depending on the deleting step; C06\'s own workload has no structural updates (not caught there)',
    'C07-6': 'missed: the static class only built engines from parts; all entry points incl. Engine(store=, initial_state=) added',
    'C08-6': 'same change as C06-4/C01-4, written independently for C08; missed: every variable sat in a branch and had one port; the engine mode now has a root-level variable reached through two or three ports',
    'C10-6': 'missed: a step director always sorted after the cells\' steps; its key may now be 0dir, so that its structural update is applied while the cells\' steps of the same layer have computed but not delivered theirs',
    'C12-6': 'missed: no variable declared through a ** port under a branch-level _emit; branch deep added',
    'C14-6': 'missed: set members were integers; sets of members that cannot be ordered against each other added',
    'C15-6': 'missed: declarations never changed between two builds of one Composite; a schema override is merged between the second and a third build',
    'C18-6': 'missed: None values were not generated; query family with None values',
    'C19-6': 'missed: every process object was used in one engine; a second engine is now built with the same process objects',
    'C01-7': 'reverts D34; caught by C10 at first, not by C01: C01 now has a structural family (C10\'s workload judged on the cells\' ledgers: ledger_in_order per incarnation of a cell)',
    'C02-7': 'missed: no parallel processes in C02; a few cases now run processes in workers (the ledger updater in the parent still sees every applied token)',
    'C06-7': 'caught by C07 at first (same change as C07-6 after its rebase), not by C06: C06 now also builds its engines through Engine(store=) with and without a separate initial state',
    'C07-7': 'missed: every viewer was idle when the director\'s update was applied; viewer timesteps 1.5, 2 and 3 added (an update in flight when the structure changes)',
    'C08-7': 'missed: no variable received {} through a port of its own; a dictionary-valued root variable is set to {} every tick',
    'C09-7': 'caught by C10 at first, not by C09 (Store-level check ignored what apply_update reports): oracle reported_paths added',
    'C10-7': 'missed: in every cell the dependent step was registered before its dependency; listing order now varies (cell_rev)',
    'C11-7': 'missed: the zero divider only met small integers; a second zero variable with inf, lists, strings, dictionaries, None, True as mother value',
    'C14-7': 'missed: no zero-dimensional arrays; 0-d, masked-with-mask and strided arrays added',
    'C15-7': 'missed: no glob store below another glob store; family nested_glob added',
    'C16-7': 'missed: merges never replaced a dictionary by a non-dictionary under one key; op rewire added',
    'C17-7': 'missed: Store.add_node was only reached through move with one-key paths; a detached subtree is re-attached with add_node and a path of several keys',
    'C18-7': 'missed: every time reached the emitter in one emit; a quarter of the cases split each row over two emits',
    'C19-7': 'missed: event values were truthy; falsy event values added and the declared default made different from the initial value',
    'C01-8': 'caught by C08 at first, not by C01 (no update named its own updater there): one update of a private accumulator now sets it (reset_at), later ones accumulate again',
    'C02-8': 'missed: nothing asserted that a timestep answer is used for one evaluation only; oracle asked_for_each_interval (between two update-condition evaluations of a serial process its calculate_timestep is called)',
    'C04-8': 'caught by C06 at first, not by C04 (patch rebased after D55/D57): the permutation class now has a process whose first-listed port is a glob port wired through a sub-topology',
    'C05-8': 'same change as C13-8; missed by C05 (no parallel steps, no steps by configuration): every second legacy deriver now overrides is_step() instead of subclassing Step, and a parallel one is observed through its ledger tokens (family parallel_duck)',
    'C06-8': 'missed (patch rebased): no port carried an explicit _output: False; the topology generator now writes the flag with both values',
    'C07-8': 'missed: the dynamic class made one update() call; it now runs a caller loop of unforced run_for() calls first (processes wait across call ends while the structure changes)',
    'C08-8': 'missed: a plain dictionary update and one naming its own updater never met in one batch; dictionary variable with the merge updater reached through two ports, both port orders - which uncovered D57',
    'C11-8': 'missed: binomial mothers were integers; fractional mother values added',
    'C12-8': 'missed: steps were always passed as steps and the derived value equalled its default at the initial time; steps may now be listed among the processes, and the derived sum is offset',
    'C13-8': 'missed: every step was a Step subclass; a step by configuration (is_step() override) listed among the processes, optionally parallel, added to the sched workload',
    'C14-8': 'missed: one emit per time; rows with an even number of variables now reach the emitter in two emits at one time',
    'C15-8': 'missed: no parallel processes in C15; family parallel (a _parallel process carrying a schema override, through two entry points, and default_state() of the composite afterwards)',
    'C16-8': 'missed: the MetaComposer oracle only named a process; overrides configured on a held composer now name processes, steps, nested steps and a step inside a compartment that also holds a process - which uncovered D56',
    'C17-8': 'missed: assoc_path only wrote scalars; a third of the written values are dictionaries (they replace the dictionary at the path)',
    'C19-8': 'missed: the timeline always came from the process parameters; entry experiment passes it as a setting of composite_in_experiment (run length = latest event time)',
    'C01-9': 'caught by C08 at first, not by C01: nothing related the shared flag (updater set) to the updates that set it; oracle flag_follows_updates',
    'C03-9': 'missed: no emitted variable was called time; a root-level variable of that name added to the schedule workload',
    'C04-9': 'reverts part of D59; caught by C12 at first, not by C04: the permutation class now has a store declared with a branch-level _emit by one process and further variables in and below it by another (which uncovered D67)',
    'C06-9': 'reverts D61; caught by C07 and C15 at first, not by C06 (it judged reads and writes on the hierarchy as built): the glob children named in the initial state must now exist at the nodes the sub-topology wires them to',
    'C07-9': 'missed: every viewer used glob ports; a viewer that declares the two initial cells by name added (one is deleted / moved / divided, the other must still be shown)',
    'C08-9': 'missed: a dict_value update never added an entry and changed a field of it in the same update',
    'C09-9': 'an engine-side change; caught by C10 and C01 at first, not by C09 (Store level): C09 got a family that runs C10\'s workload and is judged on structural_ops_carried_out and the cells\' ledgers',
    'C10-9': 'missed: every deletion named one key; operation delete_sub deletes the nested sub-compartment of a cell by a path of two keys',
    'C11-9': 'missed: the set_value divider was configured with a number; values that are themselves sequences / dictionaries added',
    'C12-9': 'caught by C14 at first, not by C12: no emitted variable held an array with units and two dimensions',
    'C13-9': 'written against commit 10b0514; on the current tree it no longer breaks the property (D66 takes the front entry of a moved process along before the changed line is reached): its own demonstration passes with the change applied',
    'C14-9': 'missed: containers were exact built-in types; subclasses of list and dict (OrderedDict, defaultdict) and numpy strings added',
    'C16-9': 'missed: flow steps were never listed among the processes; two order-sensitive flow steps (the dependent one declared first) are now generated there',
    'C17-9': 'missed: no leaf held None; None leaves added (get_in with a non-None default must return the stored None)',
    'C19-9': 'missed: event values were scalars and strings; family field (one array object listed in several events while another process accumulates on the variable, compared with a run that lists a copy per event)',
    'C03-10': 'missed by C03 (caught by C18, which already used embed_path): C03 now repeats one case in 40 with the repository\'s RAM emitter and an embed_path and compares the emit times it keeps',
    'C04-10': 'caught by C01 (cached update dictionaries) at first, not by C04: the permutation class now has a process with overlapping ports that returns the same nested update dictionaries at every call',
    'C06-10': 'caught by C08 (shared default objects) at first, not by C06: family merge_neighbours (dictionary variables with the merge updater that still hold one shared default object)',
    'C08-10': 'missed: at most two updates met at one dictionary-valued variable; a third port added (the key fewer updates share comes first)',
    'C09-10': 'missed: nothing looked at the update object of a director after it was applied; the directors now compare what they returned last time with a snapshot (oracle update_object_intact, reported by C10 and harvested by C09)',
    'C12-10': 'missed: process nodes were left out of the rows; family procnode (a branch-level flag over a compartment with a process that changes its parameters at every invocation)',
    'C14-10': 'missed: no plain string started with the form of a serialized quantity and went on',
    'C15-10': 'missed: conflicting _value declarations were scalars; dictionary values where one is a strict superset of the other added (both listing orders)',
    'C16-10': 'missed: every override named one process; an override naming three processes, the one inside a nested compartment first',
    'C18-10': 'caught by C14 at first, not by C18: no emitted sequence mixed plain numbers and quantities',
    'C01-11': 'caught by C08 at first, not by C01: no dictionary-valued variable was reached through two ports; the pair processes now also send different key sets to one variable with a per-key adding updater',
    'C02-11': 'written for C03 (C03k): the clock, landing, termination and grid clauses of C03 still hold with it (the author says so too); what it breaks is C02 (a parallel process asked for its timestep once only) - filed under C02, caught there at first attempt',
    'C07-11': 'missed: every _move named its source by one key; family deepmove (cells moved by a two-key source path into a store without a sub-schema, under a glob viewer declaring a variable of its own)',
    'C09-11': 'caught by C11 at first, not by C09: explicit daughter states named scalars at depth 2 only; family divide_override (dictionary-valued variables at depth 1-3)',
    'C13-11': 'missed by chance (4 copy-divide cases, none with the mother\'s update due in the same batch after the division): every 32nd case is now a copy-divide of a busy mother with the director listed first',
    'C15-11': 'missed: serializer conflicts were tried on plain variables only; three forms of a variable with units (quantity default, _units, units from one declarer) added',
    'C19-10': 'caught by C08 at first, not by C19: every driven variable was declared with the set updater; some now declare accumulate / nonnegative_accumulate',
    'C19-4': 'missed: one update() whose length is a multiple of the timestep; a third of the cases now make 2-4 update() calls that cut ticks short',
}


def main():
    rows = []
    for d in sorted(glob.glob(os.path.join(HOME, 'seeded', 'C*-*'))):
        name = os.path.basename(d)
        m = json.load(open(os.path.join(d, 'meta.json')))
        notes = open(os.path.join(d, 'notes.md')).read().strip().splitlines()
        first = next((l.strip('# *-').strip() for l in notes if l.strip() and not l.startswith('#')), '')
        hist = MISSED_AT_FIRST.get(name, '')
        rv = m.get('reverified')
        if rv and rv['result'] != 'caught':
            hist = (hist + '; ' if hist else '') + 'on repository commit %s: %s' % (rv['repo_commit'], {
                'NEUTRAL': 'no longer breaks the property (its own demo passes with the change: a later fix made it harmless), not caught any more',
                'STALE': 'patch no longer applies', 'MISSED': 'MISSED'}[rv['result']])
        det = m.get('detected')
        if rv:
            det = 'neutral' if rv['result'] == 'NEUTRAL' else rv['result'] == 'caught'
        if not det and m.get('also_detected_by'):
            hist = (hist + '; ' if hist else '') + 'caught by ' + m['also_detected_by']
        rows.append((name, m['property'], det, m.get('also_detected_by', ''), first[:220], hist))
    out = ['# Seeded changes (written by independent sub-agents; each confirmed: suite passes with it, demo fails with it / passes without)',
           '', '| seed | property | caught by its check (quick tier) | change (first line of the author\'s notes) | history |', '|---|---|---|---|---|']
    for name, prop, det, also, first, hist in rows:
        out.append('| %s | %s | %s | %s | %s |' % (name, prop, 'neutralised' if det == 'neutral' else ('yes' if det else 'NO'),
                                                first.replace('|', '/'), hist or 'caught at first attempt'))
    open(os.path.join(HOME, 'seeded', 'INDEX.md'), 'w').write('\n'.join(out) + '\n')
    print('%d seeds, %d caught by their own check, %d neutralised by later fixes, %d caught by a neighbouring check only' % (
        len(rows), sum(1 for r in rows if r[2] is True), sum(1 for r in rows if r[2] == 'neutral'),
        sum(1 for r in rows if not r[2])))


if __name__ == '__main__':
    main()
