#!/usr/bin/env python3
"""tools/keep_seed.py <property id> <worktree> <confirm-log-line-file> : file a confirmed seeded change under
/verif/seeded/<id>-<n>/ (patch.diff, demo.py, notes.md, meta.json)."""
import json, os, shutil, subprocess, sys
pid, wt, conf = sys.argv[1], sys.argv[2], sys.argv[3]
home = os.path.dirname(os.path.dirname(os.path.abspath(__file__)))
n = 1
while os.path.exists(os.path.join(home, 'seeded', '%s-%d' % (pid, n))):
    n += 1
dst = os.path.join(home, 'seeded', '%s-%d' % (pid, n))
os.makedirs(dst)
for f in ('patch.diff', 'demo.py', 'notes.md'):
    shutil.copy(os.path.join(wt, '_seed', f), dst)
line = [l for l in open(conf) if l.startswith(os.path.basename(wt) + ':')][-1].strip()
caught = subprocess.run([os.path.join(home, 'tools', 'try_seed.sh'), os.path.join(dst, 'patch.diff'), pid],
                        capture_output=True, text=True).stdout
verdict = [l for l in caught.splitlines() if l.startswith(pid + ' ')]
viol = [l for l in caught.splitlines() if 'VIOLATION' in l]
notes = open(os.path.join(dst, 'notes.md')).read()
meta = {
    'property': pid,
    'base_commit': subprocess.run(['git', '-C', '/repo', 'rev-parse', '--short', 'HEAD'], capture_output=True, text=True).stdout.strip(),
    'origin': 'written by an independent sub-agent that saw only the property text and a scratch worktree of the repository',
    'needs_to_manifest': notes[:1500],
    'confirmed_by_me': line,
    'how_confirmed': 'tools/confirm_seed.sh <worktree>: repository suite with the change (expect 3 failed (MongoDB), 123 passed), demo.py with the change (exit 1) and without (exit 0)',
    'quick_check_result': verdict[-1] if verdict else caught[-300:],
    'detected': bool(viol),
    'run': 'tools/try_seed.sh seeded/%s-%d/patch.diff %s  (scratch copy of /repo with the patch applied; same as git -C /repo apply + ./check + git checkout)' % (pid, n, pid),
}
json.dump(meta, open(os.path.join(dst, 'meta.json'), 'w'), indent=1)
print(dst, meta['detected'], meta['quick_check_result'])
