#!/bin/bash
cd "$(dirname "$0")/.." && /venv/bin/python -B tools/mkmanifest.py && /venv/bin/python -c "
import json, jsonschema
jsonschema.validate(json.load(open('MANIFEST.json')), json.load(open('/root/.vp/MANIFEST.schema.json')))
print('MANIFEST valid')
import glob
s=json.load(open('/root/.vp/EVIDENCE.schema.json'))
for f in sorted(glob.glob('evidence/*.json')):
    jsonschema.validate(json.load(open(f)), s)
print('evidence valid', len(glob.glob('evidence/*.json')))
"
