#!/bin/bash
# tools/reverify_seeds.sh [seed dirs...]  - re-apply every filed seeded change to a scratch copy of the CURRENT
# /repo tree (outside /repo and /verif, removed afterwards), run the quick tier of its property's check and print
# one line per seed: caught / MISSED / STALE (the patch no longer applies to the current tree) / NEUTRAL (not
# caught, and the seed's own demo.py passes with the change: a later repository fix made it harmless).
# Updates "reverified" in each seed's meta.json. Exit 1 if any seed is missed.
here="$(cd "$(dirname "$0")/.." && pwd)"
seeds="$@"; [ -z "$seeds" ] && seeds=$(ls -d "$here"/seeded/C*-* | sort)
head=$(git -C /repo rev-parse --short HEAD)
rc=0
for d in $seeds; do
  d=$(cd "$d" && pwd)
  name=$(basename "$d"); prop=${name%%-*}
  scratch=$(mktemp -d /tmp/vseed.XXXXXX)
  rsync -a --exclude .git --exclude out --exclude notebooks --exclude doc /repo/ "$scratch/"
  if ! ( cd "$scratch" && patch -p1 -s --no-backup-if-mismatch < "$d/patch.diff" ) >/dev/null 2>&1; then
    res=STALE
  else
    out=$(VERIF_REPO="$scratch" "$here/check" $prop --tier quick --no-evidence 2>&1)
    if echo "$out" | grep -q "^VIOLATION property=$prop"; then res=caught
    elif ( cd "$scratch" && PYTHONPATH="$scratch" timeout 600 /venv/bin/python "$d/demo.py" >/dev/null 2>&1 ); then
      res=NEUTRAL      # its own demonstration passes: a later fix made the change harmless on the current tree
    else res=MISSED; rc=1; fi
  fi
  rm -rf "$scratch"
  python3 - "$d/meta.json" "$res" "$head" <<'EOF'
import json, sys
p, res, head = sys.argv[1:4]
m = json.load(open(p))
m['reverified'] = {'repo_commit': head, 'result': res}
json.dump(m, open(p, 'w'), indent=1)
EOF
  echo "$name $res"
done
exit $rc
