#!/usr/bin/env python3
"""tools/rebase_seed.py <seed name> <file relative to the repository> <edits.json>

Re-creates a filed seeded change on the CURRENT /repo tree after repository fixes changed its context:
edits.json is a list of [old, new] text pairs, each old text must occur exactly once in the file. The
previous patch is kept as patch.orig.diff (first rebase only); the new patch.diff is a plain `diff -u a/ b/`.
Works in a temporary directory outside /repo and /verif, removed afterwards."""
import json
import os
import shutil
import subprocess
import sys
import tempfile

HOME = os.path.dirname(os.path.dirname(os.path.abspath(__file__)))


def main():
    name, rel, edits = sys.argv[1], sys.argv[2], json.load(open(sys.argv[3]))
    tmp = tempfile.mkdtemp(prefix='vrebase.')
    try:
        a, b = os.path.join(tmp, 'a', rel), os.path.join(tmp, 'b', rel)
        os.makedirs(os.path.dirname(a))
        os.makedirs(os.path.dirname(b))
        shutil.copy(os.path.join('/repo', rel), a)
        s = open(a).read()
        for old, new in edits:
            if s.count(old) != 1:
                sys.exit('%s: text occurs %d times: %r' % (name, s.count(old), old[:60]))
            s = s.replace(old, new)
        open(b, 'w').write(s)
        d = os.path.join(HOME, 'seeded', name)
        if not os.path.exists(os.path.join(d, 'patch.orig.diff')):
            shutil.copy(os.path.join(d, 'patch.diff'), os.path.join(d, 'patch.orig.diff'))
        out = subprocess.run(['diff', '-u', 'a/' + rel, 'b/' + rel], cwd=tmp, capture_output=True, text=True).stdout
        open(os.path.join(d, 'patch.diff'), 'w').write(out)
        print(name, 'rebased,', len(out.splitlines()), 'diff lines')
    finally:
        shutil.rmtree(tmp)


if __name__ == '__main__':
    main()
