#!/bin/bash
# tools/confirm_seed.sh <worktree>  - confirm a seeded change: repo suite passes with it, demo fails with it, passes without
wt="$1"
cd "$wt" || exit 2
export PYTHONPATH="$wt"
imp=$(/venv/bin/python -c "import vivarium; print(vivarium.__file__)")
suite=$(timeout 1500 /venv/bin/python -m pytest -q -p no:cacheprovider --timeout=900 -n 6 2>&1 | tail -1)
timeout 300 /venv/bin/python _seed/demo.py >/tmp/demo_with.$$ 2>&1; with=$?
git stash -q -- vivarium
timeout 300 /venv/bin/python _seed/demo.py >/tmp/demo_without.$$ 2>&1; without=$?
git stash pop -q
rm -f /tmp/demo_with.$$ /tmp/demo_without.$$
echo "$(basename $wt): import=$imp | suite: $suite | demo with change exit=$with | without exit=$without"
