#!/bin/bash
# tools/try_seed.sh <patch.diff> [check ids...]  - apply a seeded change to a scratch copy of /repo
# (outside /repo and /verif), run the quick tier of the given checks (default: all) against it, remove the copy.
patch="$1"; shift
here="$(cd "$(dirname "$0")/.." && pwd)"
scratch=$(mktemp -d /tmp/vseed.XXXXXX)
rsync -a --exclude .git --exclude out --exclude notebooks --exclude doc /repo/ "$scratch/"
( cd "$scratch" && patch -p1 -s < "$patch" ) || { echo "patch failed"; rm -rf "$scratch"; exit 3; }
checks="$@"; [ -z "$checks" ] && checks="C01 C02 C03 C04 C05 C06 C07 C08 C09 C10 C11 C12 C13 C14 C15 C16 C17 C18 C19"
for c in $checks; do
  out=$(VERIF_REPO="$scratch" "$here/check" $c --tier ${TIER:-quick} --no-evidence 2>&1)
  echo "$out" | grep -E "VIOLATION|INCONCLUSIVE" | head -2 | cut -c1-260
  echo "$out" | grep -E "^$c " | tail -1 | cut -c1-260
done
rm -rf "$scratch"
