"""Regenerates MANIFEST.json from the metadata of the check modules (run with
./tools/mkmanifest.sh). Properties without a module are listed under
not_applicable with the reason given in NOT_CLAIMED."""
import importlib, json, os, sys
HOME = os.path.dirname(os.path.dirname(os.path.abspath(__file__)))
sys.path.insert(0, HOME); sys.path.insert(1, os.path.join(HOME, '.deps'))
NOT_CLAIMED = {}
BASE = json.load(open('/root/.vp/BASELINE.json'))['cmd'] if os.path.exists('/root/.vp/BASELINE.json') else ''
props = [json.loads(l)['id'] for l in open(os.path.join(HOME, 'properties.jsonl'))]
checks, na = [], []
for pid in props:
    path = os.path.join(HOME, 'vmon', 'checks', pid.lower() + '.py')
    if not os.path.exists(path):
        na.append({'property_id': pid, 'reason': NOT_CLAIMED.get(pid, 'not claimed yet: runtime monitor for this property is still under construction (design in DESIGN.md section 4)')})
        continue
    src = open(path).read()
    meta = {}
    # modules import vivarium lazily, so importing them here is cheap
    mod = importlib.import_module('vmon.checks.' + pid.lower())
    m = mod.MANIFEST
    checks.append({
        'property_id': pid,
        'quick_cmd': './check %s --tier quick' % pid,
        'thorough_cmd': './check %s --tier thorough' % pid,
        'evidence_file': 'evidence/%s.json' % pid,
        'replay_cmd_template': './check %s --replay {path}' % pid,
        'engine': m.get('engine', 'vmon'),
        'level_claimed': {'category': mod.LEVEL, 'text': m['text'], 'design_ref': m.get('design_ref', 'DESIGN.md section 4, ' + pid)},
        'level_note': m['note'],
        'technique': m['technique'],
    })
man = {
    'version': 1,
    'setup_cmd': './setup.sh',
    'hooks': {
        'guard': 'VIVARIUM_CORE_VERIF',
        'enable': 'no source hooks: all sensors are attached from the harness (Engine subclass with a monitored clock, recording Process/Step/Emitter classes, registry-level updaters, icontract wrappers); ./check exports VIVARIUM_CORE_VERIF=1 for uniformity',
        'baseline_off_cmd': 'cd /repo && /venv/bin/python -m pytest -ra -q -p no:cacheprovider --timeout=900 --continue-on-collection-errors',
        'source_commits': [],
        'add_only': True,
    },
    'engines': [
        {'name': 'vmon', 'path': 'vmon/', 'serves_properties': [c['property_id'] for c in checks],
         'kind_free_text': 'runtime monitoring: generated hostile workloads drive the real vivarium code from /repo; online invariant monitors, recorded event histories checked offline, small executable reference models; 16 worker subprocesses; three-valued verdicts'},
    ],
    'checks': checks,
    'not_applicable': na,
    'notes': 'Exit 0 = held on everything explored (KNOWN-FINDING lines possible), 1 = VIOLATION line with replay file, 2 = INCONCLUSIVE (deciding monitor never evaluated / watchdog). VERIF_SEED and VERIF_TIER honoured. See DESIGN.md.',
}
json.dump(man, open(os.path.join(HOME, 'MANIFEST.json'), 'w'), indent=1)
print('checks', len(checks), 'not_applicable', len(na))
