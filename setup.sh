#!/bin/bash
# Offline set-up: puts icontract beside the repository's interpreter (target
# directory .deps, git-ignored) from the local wheelhouse. Idempotent.
set -e
here="$(cd "$(dirname "$0")" && pwd)"
cd "$here"
if [ ! -d .deps/icontract ]; then
    rm -rf .deps.tmp
    PIP_NO_INDEX=1 /venv/bin/pip install --quiet --no-index \
        --find-links /opt/veriftools/wheels --target .deps.tmp icontract
    rm -rf .deps
    mv .deps.tmp .deps
fi
mkdir -p evidence replays
/venv/bin/python -c "import sys; sys.path.insert(0, '.deps'); import icontract; print('icontract', icontract.__version__)"
